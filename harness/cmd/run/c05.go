//go:build !skip_c05

package main

// C05 — Maintenance renews what is due, once, and keeps serving valid certificates.
//
// The harness drives the REAL Cache.RenewManagedCertificates, Config.ManageSync/ManageAsync and the
// package-level job manager on the in-memory storage double and the issuer double, in lock-step:
// background jobs (goroutines of jm) block at every storage / issuer operation until the harness
// lets them advance; a maintenance pass blocks between its scan and its act phase (at its first
// Info-level log entry, through the cache's logger). After every event the cache, the name index,
// the served certificates, storage, the issuer log, the job manager and the Revoked statuses of the
// cache entries are observed. Revocations (a status set through a hook) and OCSP passes (the real
// updateOCSPStaples, with forceRenew for revoked certificates) are events too. The history and the
// observations are replayed on the Coq model (Maintain.Model, Maintain.XModel) and checked against
// the property's clauses (Maintain.Spec, XModel.xspec_step).

import (
	"bytes"
	"context"
	"crypto/tls"
	"crypto/x509"
	"encoding/json"
	"encoding/pem"
	"errors"
	"fmt"
	"io/fs"
	"math/rand"
	"runtime"
	"sort"
	"strconv"
	"strings"
	"sync"
	"time"

	"github.com/caddyserver/certmagic"
	"go.uber.org/zap"
	"go.uber.org/zap/zapcore"

	"verifharness/pkg/doubles"
	"verifharness/pkg/emit"
)

func init() { register("C05", runC05) }

// ---------------------------------------------------------------- history description

type c05Cert struct {
	ID      int   `json:"id"`
	Head    int   `json:"head"`
	Rest    []int `json:"rest,omitempty"`
	Due     bool  `json:"due"`
	Expired bool  `json:"expired,omitempty"` // due and past NotAfter (a sub-case of due)
	Man     bool  `json:"man"`
	// the cache copy of certificate Of whose in-memory ARI says "renew now" while the stored resource of the
	// same certificate does not: for the model a distinct (due) certificate object that the stored one replaces
	Ari bool `json:"ari,omitempty"`
	Of  int  `json:"of,omitempty"`
}

type c05Event struct {
	Kind  string `json:"kind"` // scan act ext issuer job manage | revoke ocsp
	P     int    `json:"p,omitempty"`
	N     int    `json:"n,omitempty"`
	Rest  []int  `json:"rest,omitempty"`
	Fail  bool   `json:"fail,omitempty"`
	K     int    `json:"k,omitempty"`
	Async bool   `json:"async,omitempty"`
	ID    int    `json:"id,omitempty"` // revoke: identity of the cached certificate
	Ord   []int  `json:"ord,omitempty"` // ocsp: the order in which the pass took the names (observed; a replay re-observes it)
	Iss   int    `json:"iss,omitempty"`   // issuer: 0 both configured issuers, 1 the first only, 2 the second (backup) only; ext: 0 / 1 = saved under the first / second issuer's key
	Chain bool   `json:"chain,omitempty"` // issuer: do all issuers fail for the name afterwards (what the model's SetIssuer gets; re-computed)
}

type c05Hist struct {
	K      int        `json:"k"`
	OD     []bool     `json:"od"`
	IDue   bool       `json:"idue"`
	Certs  []c05Cert  `json:"certs"` // certificates that exist initially; ids 0..len-1 in this order
	Cache  []int      `json:"cache"` // ids preloaded into the cache, in this order
	Store  []int      `json:"store"` // per name: id of the stored certificate, -1 = none
	Events []c05Event `json:"events"`
	// the cache is bounded and full from the start (Capacity = number of preloaded certificates); no event
	// that would add a certificate beyond that (manage) is carried out
	Bounded bool `json:"bounded,omitempty"`
	// name 0 is the wildcard *.u.example and name 1 is www.u.example, which it covers (managing a name is about
	// exactly that subject: wildcard coverage plays no part)
	Wild bool `json:"wild,omitempty"`
}

type c05Obs struct {
	Cache  []c05Cert  `json:"cache"`
	Store  []*c05Cert `json:"store"`
	Index  [][]int    `json:"index"`
	Served []int      `json:"served"` // -1 = not exactly one candidate (or handshake error)
	Issued []int      `json:"issued"`
	Failed []int      `json:"failed"`
	Jobs   []int      `json:"jobs"`
	Err    bool       `json:"err"`
	Rev    []int      `json:"revoked"` // cache entries whose OCSP status is Revoked
	// per name, per issuer key (first, second): the bundle stored under that key; Store[n] is the most recently
	// issued of them (highest serial)
	Bundles [][]*c05Cert `json:"bundles"`
	Panics  []string     `json:"panics,omitempty"` // panics of the code under test during the event (reported as err)
	Starved []string     `json:"not_started,omitempty"` // submitted jobs that no worker took although workers were free

	failovers int // certificates issued by the second issuer so far
}

// ---------------------------------------------------------------- goroutine identity

func c05GID() int64 {
	var buf [64]byte
	n := runtime.Stack(buf[:], false)
	s := buf[:n]
	s = bytes.TrimPrefix(s, []byte("goroutine "))
	i := bytes.IndexByte(s, ' ')
	if i < 0 {
		return -1
	}
	id, _ := strconv.ParseInt(string(s[:i]), 10, 64)
	return id
}

// ---------------------------------------------------------------- the world of one history

type c05Arrival struct {
	op      doubles.Op
	release chan struct{}
}

type c05Job struct {
	gid   int64
	name  int
	renew bool
	phase int // 0 before the lock, 1 holding it, 2 after releasing it
	first string // kind and key of the first operation of an attempt under the lock
}

type c05Pass struct {
	id      int
	gated   bool
	passed  bool
	atGate  chan struct{}
	release chan struct{}
	done    chan error
}

type c05World struct {
	k     int
	names []string
	od    []bool
	be    *doubles.MemBackend
	ca    *doubles.CA
	iss   *doubles.IssuerDouble // first issuer
	issB  *doubles.IssuerDouble // second (backup) issuer: tried when the first fails
	seq   int                   // certificates made so far during the history (NotBefore grows with it)
	cache *certmagic.Cache
	cfg   *certmagic.Config
	cfgOD *certmagic.Config
	ctx   context.Context
	stop  context.CancelFunc

	mu       sync.Mutex
	actors   map[int64]bool
	pending  map[int64]*c05Arrival
	jobOf    map[int64]*c05Job
	jobs     [][]*c05Job // per name, in creation order
	failing  [2][]bool // per issuer, per name
	draining bool
	passOf   map[int64]*c05Pass
	passes   map[int]*c05Pass
	lastErr  bool
	nowRef   time.Time
	idue     bool
	ocspG    map[int64]bool // goroutines running an OCSP maintenance pass
	last     *c05Obs        // the latest observation
	hashOf   map[int]string // cache key by certificate identity, as of the latest observation
	ocspOrd  []int          // names in the order the running OCSP pass asked for their locks
	aliasOf  map[int]int // identity of a certificate -> identity of its ARI-due cache copy
	bounded  bool
	starvedSig  string   // the queue content for which "no worker" has been observed already
	starved     []string // observations of jobs that did not start, during the latest event
	starvedSeen bool
	ocspPanicked bool
	panics   []string // panics of the code under test during the latest event (observations, not harness failures)
}

// protect runs a call into the code under test; a panic there is an observation of the event — the
// call "returned an error" and did nothing further — never a failure of the harness.
func (w *c05World) protect(what string, f func() error) (err error) {
	defer func() {
		if r := recover(); r != nil {
			msg := fmt.Sprintf("%s panicked: %v", what, r)
			w.mu.Lock()
			w.panics = append(w.panics, msg)
			w.mu.Unlock()
			err = errors.New(msg)
		}
	}()
	return f()
}

var c05DueChecked, c05DueMismatch int

var c05ErrIssuerDown = errors.New("issuer double: injected failure")

const c05Timeout = 40 * time.Second

// a submitted job must have been taken by a worker within this bound when all workers sit at gates
const c05StartBound = 1 * time.Second

func (w *c05World) nameIndex(s string) int {
	for i, n := range w.names {
		if s == n {
			return i
		}
	}
	return -1
}

// nameInKey finds which universe name an operation's key talks about.
func (w *c05World) nameInKey(key string) int {
	for i, n := range w.names {
		// storage keys carry the sanitized form of a wildcard name
		if strings.Contains(key, n) || (strings.HasPrefix(n, "*") && strings.Contains(key, "wildcard_"+n[1:])) {
			return i
		}
	}
	return -1
}

// hook sees every storage / issuer operation before it takes effect.
func (w *c05World) hook(op *doubles.Op) error {
	gid := c05GID()
	w.mu.Lock()
	inject := func() error {
		if op.Kind == "IssueStart" {
			which := 0
			if strings.HasPrefix(op.Key, c05IssuerKeys[1]+":") {
				which = 1
			}
			// every certificate made during a history is "issued later" than the ones before it, also
			// at the resolution of NotBefore (seconds)
			w.seq++
			back := time.Since(w.nowRef) + time.Hour - time.Duration(w.seq)*2*time.Second
			if w.idue {
				back += 80*24*time.Hour - time.Hour
			}
			[]*doubles.IssuerDouble{w.iss, w.issB}[which].Backdate = back
			if n := w.nameInKey(op.Key); n >= 0 && w.failing[which][n] {
				if w.ocspG[gid] {
					// the forced renewal of a revoked certificate runs inside the OCSP pass with
					// retries; the issuer says "do not retry", so one failed attempt ends it
					return certmagic.ErrNoRetry{Err: c05ErrIssuerDown}
				}
				return c05ErrIssuerDown
			}
		}
		if op.Kind == "Load" && w.ocspG[gid] && strings.Contains(op.Key, "certificates/") {
			// likewise a forced renewal with nothing in storage gives up at once
			if _, ok := w.be.Get(op.Key); !ok {
				return certmagic.ErrNoRetry{Err: fs.ErrNotExist}
			}
		}
		return nil
	}
	if w.draining || w.actors[gid] {
		if op.Kind == "Lock" && w.ocspG[gid] {
			if n := w.nameInKey(op.Key); n >= 0 {
				w.ocspOrd = append(w.ocspOrd, n)
			}
		}
		err := inject()
		w.mu.Unlock()
		return err
	}
	// a goroutine of the job manager: block until the harness lets this operation happen
	j := w.jobOf[gid]
	if j == nil {
		n := w.nameInKey(op.Key)
		if n < 0 {
			w.mu.Unlock()
			return fmt.Errorf("harness: operation %s %q by an unknown goroutine cannot be attributed", op.Kind, op.Key)
		}
		j = &c05Job{gid: gid, name: n}
		// named (renewal) job iff the job manager holds "renew_<name>" and no live renewal job
		// for that name is known yet
		snap := certmagic.VerifMaintainJobsSnapshot()
		named := false
		for _, x := range snap.Names {
			if strings.HasSuffix(x, w.names[n]) { // "renew_<name>"
				named = true
			}
		}
		for _, o := range w.jobs[n] {
			if o.renew {
				named = false
			}
		}
		j.renew = named
		w.jobOf[gid] = j
		w.jobs[n] = append(w.jobs[n], j)
	}
	a := &c05Arrival{op: *op, release: make(chan struct{})}
	w.pending[gid] = a
	w.mu.Unlock()
	<-a.release
	w.mu.Lock()
	err := inject()
	w.mu.Unlock()
	return err
}

// zap core of the cache's logger: a maintenance pass stops at its first Info entry (the
// entries that open the reload / renewal queues) until the harness lets it act.
type c05Core struct{ w *c05World }

func (c c05Core) Enabled(l zapcore.Level) bool      { return l >= zapcore.InfoLevel }
func (c c05Core) With([]zapcore.Field) zapcore.Core { return c }
func (c c05Core) Sync() error                       { return nil }
func (c c05Core) Check(e zapcore.Entry, ce *zapcore.CheckedEntry) *zapcore.CheckedEntry {
	if c.Enabled(e.Level) {
		return ce.AddCore(e, c)
	}
	return ce
}
func (c c05Core) Write(e zapcore.Entry, _ []zapcore.Field) error {
	if e.Level != zapcore.InfoLevel {
		return nil
	}
	w := c.w
	gid := c05GID()
	w.mu.Lock()
	p := w.passOf[gid]
	if p == nil || p.gated || w.draining {
		w.mu.Unlock()
		return nil
	}
	p.gated = true
	w.mu.Unlock()
	close(p.atGate)
	<-p.release
	return nil
}

func c05Validity(now time.Time, due, expired bool) (time.Time, time.Time) {
	day := 24 * time.Hour
	switch {
	case expired:
		return now.Add(-100 * day), now.Add(-10 * day)
	case due:
		return now.Add(-80 * day), now.Add(10 * day)
	default:
		return now.Add(-time.Hour), now.Add(90*day - time.Hour)
	}
}

func c05NewWorld(h *c05Hist) *c05World {
	w := &c05World{k: h.K, od: h.OD, be: doubles.NewMemBackend(), ca: doubles.NewCA("C05 harness CA"),
		actors: map[int64]bool{}, pending: map[int64]*c05Arrival{}, jobOf: map[int64]*c05Job{},
		jobs: make([][]*c05Job, h.K), failing: [2][]bool{make([]bool, h.K), make([]bool, h.K)}, passOf: map[int64]*c05Pass{}, passes: map[int]*c05Pass{},
		nowRef: time.Now(), idue: h.IDue, ocspG: map[int64]bool{}, hashOf: map[int]string{}}
	for i := 0; i < h.K; i++ {
		switch {
		case h.Wild && i == 0:
			w.names = append(w.names, "*.u.example")
		case h.Wild && i == 1:
			w.names = append(w.names, "www.u.example")
		default:
			w.names = append(w.names, fmt.Sprintf("n%d.example", i))
		}
	}
	w.ctx, w.stop = context.WithCancel(context.Background())
	w.iss = &doubles.IssuerDouble{Key: c05IssuerKeys[0], CA: w.ca, Log: w.be.Log, Inst: "i1", Backdate: time.Hour}
	w.issB = &doubles.IssuerDouble{Key: c05IssuerKeys[1], CA: w.ca, Log: w.be.Log, Inst: "i1", Backdate: time.Hour}
	w.actors[c05GID()] = true
	w.be.Log.Hook = w.hook
	st := w.be.Handle("i1")
	cacheLogger := zap.New(c05Core{w})
	w.bounded = h.Bounded
	w.aliasOf = map[int]int{}
	w.cache = certmagic.NewCache(certmagic.CacheOptions{
		Capacity: map[bool]int{false: 0, true: len(h.Cache)}[h.Bounded],
		GetConfigForCert: func(c certmagic.Certificate) (*certmagic.Config, error) {
			if len(c.Names) > 0 {
				if i := w.nameIndex(c.Names[0]); i >= 0 && w.od[i] {
					return w.cfgOD, nil
				}
			}
			return w.cfg, nil
		},
		Logger: cacheLogger,
	})
	tmpl := certmagic.Config{Storage: st, Issuers: []certmagic.Issuer{w.iss, w.issB}, Logger: zap.NewNop(), DisableStorageCheck: true}
	w.cfg = certmagic.New(w.cache, tmpl)
	tmplOD := tmpl
	tmplOD.OnDemand = &certmagic.OnDemandConfig{DecisionFunc: func(context.Context, string) error { return nil }}
	w.cfgOD = certmagic.New(w.cache, tmplOD)
	return w
}

func (w *c05World) certNames(c c05Cert) []string {
	out := []string{w.names[c.Head]}
	for _, r := range c.Rest {
		out = append(out, w.names[r])
	}
	return out
}

// the storage key prefixes of the two configured issuers (order = order of Config.Issuers)
var c05IssuerKeys = [2]string{"dbl", "backup"}

func (w *c05World) putBundle(key int, iss int, chain, keyPEM []byte, names []string) {
	nm := w.names[key]
	meta, _ := json.MarshalIndent(certmagic.CertificateResource{SANs: names, IssuerData: json.RawMessage(`{"harness":true}`)}, "", "\t")
	w.be.Put(certmagic.StorageKeys.SitePrivateKey(c05IssuerKeys[iss], nm), keyPEM)
	w.be.Put(certmagic.StorageKeys.SiteCert(c05IssuerKeys[iss], nm), chain)
	w.be.Put(certmagic.StorageKeys.SiteMeta(c05IssuerKeys[iss], nm), meta)
}

func (w *c05World) removeBundle(key int) {
	nm := w.names[key]
	w.be.Remove(certmagic.StorageKeys.SitePrivateKey(c05IssuerKeys[0], nm))
	w.be.Remove(certmagic.StorageKeys.SiteCert(c05IssuerKeys[0], nm))
	w.be.Remove(certmagic.StorageKeys.SiteMeta(c05IssuerKeys[0], nm))
}

// setup creates the initial certificates (serial = 101 + id), cache and storage.
func (w *c05World) setup(h *c05Hist) error {
	type made struct{ chain, key []byte }
	mk := make([]made, len(h.Certs))
	for i, c := range h.Certs {
		if c.ID != i {
			return fmt.Errorf("certificate ids must be 0..n-1 in order")
		}
		nb, na := c05Validity(w.nowRef, c.Due, c.Expired)
		chain, leaf, key, err := w.ca.Leaf(doubles.LeafOpts{Names: w.certNames(c), NotBefore: nb, NotAfter: na})
		if err != nil {
			return err
		}
		if leaf.SerialNumber.Int64() != int64(101+i) {
			return fmt.Errorf("unexpected serial %v for certificate %d", leaf.SerialNumber, i)
		}
		mk[i] = made{chain, key}
	}
	for _, id := range h.Cache {
		c := h.Certs[id]
		src := id
		if c.Ari {
			src = c.Of // the very certificate that is in storage
		}
		if c.Man {
			w.putBundle(c.Head, 0, mk[src].chain, mk[src].key, w.certNames(c))
			cfg := w.cfg
			if w.od[c.Head] {
				cfg = w.cfgOD
			}
			if _, err := cfg.CacheManagedCertificate(w.ctx, w.names[c.Head]); err != nil {
				return fmt.Errorf("preloading managed certificate %d: %v", id, err)
			}
			w.removeBundle(c.Head)
			if c.Ari {
				certs, _ := certmagic.VerifMaintainCacheSnapshot(w.cache)
				done := false
				for _, cc := range certs {
					if cc.Leaf != nil && cc.Leaf.SerialNumber.Int64() == int64(101+c.Of) {
						done = certmagic.VerifMaintainSetARISelectedTime(w.cache, cc.Hash, time.Now().Add(-time.Hour))
					}
				}
				if !done {
					return fmt.Errorf("could not mark the cache copy of certificate %d as due by ARI", c.Of)
				}
				w.aliasOf[c.Of] = id
			}
		} else {
			if _, err := w.cfg.CacheUnmanagedCertificatePEMBytes(w.ctx, mk[id].chain, mk[id].key, nil); err != nil {
				return fmt.Errorf("preloading unmanaged certificate %d: %v", id, err)
			}
		}
	}
	for n, id := range h.Store {
		if id >= 0 {
			c := h.Certs[id]
			// the initial bundle lies under the first or the second issuer's key
			w.putBundle(n, id%2, mk[id].chain, mk[id].key, w.certNames(c))
		}
	}
	return nil
}

// settle waits until every goroutine of the job manager is blocked at a gate (or gone).
func (w *c05World) settle() error {
	deadline := time.Now().Add(c05Timeout)
	var stableSince time.Time
	curSig := ""
	for {
		snap := certmagic.VerifMaintainJobsSnapshot()
		w.mu.Lock()
		np := len(w.pending)
		w.mu.Unlock()
		if snap.ActiveWorkers == np && len(snap.Queue) == 0 {
			w.starvedSig = ""
			break
		}
		if snap.ActiveWorkers == np && len(snap.Queue) > 0 {
			// every worker sits at a gate, yet submitted jobs wait in the queue and nobody will take them
			// (far fewer workers than allowed): not a failure of the harness but an OBSERVATION — the job
			// did not start; it is missing from the observed jobs, which the monitor judges
			sig := strings.Join(snap.Queue, ",")
			if sig == w.starvedSig {
				break
			}
			if sig != curSig || stableSince.IsZero() {
				curSig, stableSince = sig, time.Now()
			} else if time.Since(stableSince) > c05StartBound {
				w.starvedSig = sig
				w.starved = append(w.starved, "queued job(s) got no worker within "+c05StartBound.String()+": "+sig)
				w.starvedSeen = true
				break
			}
		} else {
			stableSince = time.Time{}
		}
		if time.Now().After(deadline) {
			return fmt.Errorf("job manager did not settle: workers=%d queued=%d gated=%d", snap.ActiveWorkers, len(snap.Queue), np)
		}
		time.Sleep(40 * time.Microsecond)
	}
	// jobs whose goroutine is not at a gate any more have finished
	w.mu.Lock()
	for n := range w.jobs {
		var live []*c05Job
		for _, j := range w.jobs[n] {
			if _, ok := w.pending[j.gid]; ok {
				live = append(live, j)
			} else {
				delete(w.jobOf, j.gid)
			}
		}
		w.jobs[n] = live
	}
	w.mu.Unlock()
	return nil
}

func (w *c05World) opErr(seq int) string {
	ops := w.be.Log.Snapshot()
	if seq < len(ops) {
		return ops[seq].Err
	}
	return ""
}

// stepJob lets the k-th job for name n advance to its next model-level stop: after it got the
// lock, after an attempt under the lock failed, after it released the lock, or when it is done.
func (w *c05World) stepJob(n, k int) error {
	w.mu.Lock()
	if k >= len(w.jobs[n]) {
		w.mu.Unlock()
		return fmt.Errorf("no job %d for name %d", k, n)
	}
	j := w.jobs[n][k]
	w.mu.Unlock()
	for steps := 0; steps < 200; steps++ {
		w.mu.Lock()
		a := w.pending[j.gid]
		if a == nil {
			w.mu.Unlock()
			return fmt.Errorf("job %d/%d is not at a gate", n, k)
		}
		delete(w.pending, j.gid)
		w.mu.Unlock()
		close(a.release)
		// wait for it to arrive again or to finish
		deadline := time.Now().Add(c05Timeout)
		finished := false
		for {
			w.mu.Lock()
			_, back := w.pending[j.gid]
			np := len(w.pending)
			w.mu.Unlock()
			if back {
				break
			}
			snap := certmagic.VerifMaintainJobsSnapshot()
			if snap.ActiveWorkers == np && (len(snap.Queue) == 0 || w.starvedSeen) {
				// re-check: the job may have arrived between the two reads
				w.mu.Lock()
				_, back = w.pending[j.gid]
				w.mu.Unlock()
				if !back {
					finished = true
				}
				break
			}
			if time.Now().After(deadline) {
				return fmt.Errorf("job %d/%d neither arrived at a gate nor finished after %s %s", n, k, a.op.Kind, a.op.Key)
			}
			time.Sleep(40 * time.Microsecond)
		}
		switch a.op.Kind {
		case "LockAcquired":
			j.phase = 1
			w.mu.Lock()
			if nx := w.pending[j.gid]; nx != nil {
				j.first = nx.op.Kind + " " + nx.op.Key
			}
			w.mu.Unlock()
		case "Unlock":
			j.phase = 2
		}
		if finished {
			return nil
		}
		if a.op.Kind == "LockAcquired" || a.op.Kind == "Unlock" {
			return nil
		}
		// an attempt under the lock failed (with two issuers a single failing operation does not
		// mean that: a bundle missing under one issuer's key, the first issuer refusing): the job
		// is back at the first operation of an attempt after an operation that returned an error
		w.mu.Lock()
		next := w.pending[j.gid]
		w.mu.Unlock()
		if j.phase == 1 && next != nil {
			if w.opErr(a.op.Seq) != "" && next.op.Kind+" "+next.op.Key == j.first {
				return nil
			}
		}
	}
	return fmt.Errorf("job %d/%d: too many operations in one step", n, k)
}

func (w *c05World) asActor(f func()) {
	done := make(chan struct{})
	go func() {
		gid := c05GID()
		w.mu.Lock()
		w.actors[gid] = true
		w.mu.Unlock()
		defer func() {
			w.mu.Lock()
			delete(w.actors, gid)
			w.mu.Unlock()
			close(done)
		}()
		f()
	}()
	<-done
}

// enabled says whether the harness can carry out the event in the current situation.
func (w *c05World) enabled(e c05Event) bool {
	w.mu.Lock()
	defer w.mu.Unlock()
	switch e.Kind {
	case "scan":
		if _, ok := w.passes[e.P]; ok {
			return false
		}
		// two due managed certificates with the same first name in the cache: the scan queues both and the
		// job manager keeps the first submission — which one that is (and so which certificate the job
		// replaces in the end) depends on Go's map iteration order; the model scans in insertion order
		// an ARI-due cache copy is modelled as a certificate object of its own, but it shares its hash with the
		// stored certificate: two pending passes that both hold it would remove (by hash) the re-loaded copy the
		// second time, which the model's distinct identities cannot express — one pending pass at a time then
		if w.last != nil && len(w.passes) > 0 {
			for _, al := range w.aliasOf {
				if c05HasCert(w.last.Cache, al) {
					return false
				}
			}
		}
		if w.last != nil {
			seen := map[int]bool{}
			for _, c := range w.last.Cache {
				if c.Man && c.Due && !w.od[c.Head] {
					if seen[c.Head] {
						return false
					}
					seen[c.Head] = true
				}
			}
		}
		return true
	case "act":
		_, ok := w.passes[e.P]
		return ok
	case "job":
		if e.N >= w.k || e.K >= len(w.jobs[e.N]) {
			return false
		}
		// a job that has not got the lock yet cannot move while another job for the same name
		// holds it (it would wait inside Storage.Lock, where the harness has no gate)
		if w.jobs[e.N][e.K].phase == 0 {
			for _, o := range w.jobs[e.N] {
				if o.phase == 1 {
					return false
				}
			}
		}
		return true
	case "manage":
		if e.N >= w.k || w.bounded {
			return false
		}
		// keep jobs attributable and calls non-blocking: no synchronous call while a job for
		// the name is alive (it could wait for the job's lock); an asynchronous one only
		// besides unnamed obtain jobs (duplicates of those are allowed by the job manager)
		for _, o := range w.jobs[e.N] {
			if !e.Async || o.renew {
				return false
			}
		}
		return true
	case "ext", "issuer":
		return e.N < w.k
	case "revoke":
		// updateOCSPStaples skips expired certificates; the model has no notion of expiry
		if w.last == nil {
			return false
		}
		// an ARI-due cache copy (a certificate object of its own for the model) shares its hash with the stored
		// certificate: if a failed forced renewal removes it and the stored certificate is loaded again while a pass
		// that scanned the copy is still pending, that pass removes the re-loaded entry by hash — not expressible
		// with the model's distinct identities; such a copy is never revoked
		for _, al := range w.aliasOf {
			if al == e.ID {
				return false
			}
		}
		for _, c := range w.last.Cache {
			if c.ID == e.ID {
				return !c.Expired
			}
		}
		return false
	case "ocsp":
		// the theorems about OCSP passes are for an issuer whose certificates are not already due;
		// a forced renewal waits for the name's lock, so none while a job holds it
		if w.idue || w.last == nil {
			return false
		}
		// two revoked certificates with the same first name: the pass (a loop over a Go map) may take a certificate
		// of another name between them; the observed order is one of names (lock requests), which cannot say that
		heads := map[int]bool{}
		for _, c := range w.last.Cache {
			if c.Man && c05Has(w.last.Rev, c.ID) {
				if heads[c.Head] {
					return false
				}
				heads[c.Head] = true
			}
		}
		for _, c := range w.last.Cache {
			if !c.Man || !c05Has(w.last.Rev, c.ID) {
				continue
			}
			for _, o := range w.jobs[c.Head] {
				if o.phase == 1 {
					return false
				}
			}
		}
		return true
	}
	return false
}

func c05HasCert(l []c05Cert, id int) bool {
	for _, c := range l {
		if c.ID == id {
			return true
		}
	}
	return false
}

func c05Has(l []int, x int) bool {
	for _, y := range l {
		if x == y {
			return true
		}
	}
	return false
}

func (w *c05World) do(e c05Event) error {
	w.lastErr = false
	switch e.Kind {
	case "scan":
		p := &c05Pass{id: e.P, atGate: make(chan struct{}), release: make(chan struct{}), done: make(chan error, 1)}
		w.mu.Lock()
		w.passes[e.P] = p
		w.mu.Unlock()
		started := make(chan struct{})
		go func() {
			gid := c05GID()
			w.mu.Lock()
			w.actors[gid] = true
			w.passOf[gid] = p
			w.mu.Unlock()
			close(started)
			err := w.protect("RenewManagedCertificates", func() error { return w.cache.RenewManagedCertificates(w.ctx) })
			w.mu.Lock()
			delete(w.actors, gid)
			delete(w.passOf, gid)
			w.mu.Unlock()
			p.done <- err
		}()
		<-started
		select {
		case <-p.atGate:
		case err := <-p.done:
			p.passed = true
			if err != nil {
				w.lastErr = true
			}
		case <-time.After(c05Timeout):
			return fmt.Errorf("pass %d neither reached its act phase nor returned", e.P)
		}
	case "act":
		w.mu.Lock()
		p := w.passes[e.P]
		delete(w.passes, e.P)
		w.mu.Unlock()
		if !p.passed {
			close(p.release)
			select {
			case err := <-p.done:
				if err != nil {
					w.lastErr = true
				}
			case <-time.After(c05Timeout):
				return fmt.Errorf("pass %d did not return", e.P)
			}
		}
	case "ext":
		names := []string{w.names[e.N]}
		for _, r := range e.Rest {
			names = append(names, w.names[r])
		}
		nb, na := c05Validity(w.nowRef, false, false)
		w.mu.Lock()
		w.seq++
		shift := time.Duration(w.seq) * 2 * time.Second
		w.mu.Unlock()
		chain, _, key, err := w.ca.Leaf(doubles.LeafOpts{Names: names, NotBefore: nb.Add(shift), NotAfter: na.Add(shift)})
		if err != nil {
			return err
		}
		w.putBundle(e.N, e.Iss%2, chain, key, names)
	case "issuer":
		w.mu.Lock()
		if e.Iss == 0 || e.Iss == 1 {
			w.failing[0][e.N] = e.Fail
		}
		if e.Iss == 0 || e.Iss == 2 {
			w.failing[1][e.N] = e.Fail
		}
		w.mu.Unlock()
	case "job":
		if err := w.stepJob(e.N, e.K); err != nil {
			return err
		}
	case "manage":
		cfg := w.cfg
		if w.od[e.N] {
			cfg = w.cfgOD
		}
		var err error
		fin := make(chan struct{})
		go func() {
			w.asActor(func() {
				err = w.protect("Manage", func() error {
					if e.Async {
						return cfg.ManageAsync(w.ctx, []string{w.names[e.N]})
					}
					return cfg.ManageSync(w.ctx, []string{w.names[e.N]})
				})
			})
			close(fin)
		}()
		select {
		case <-fin:
		case <-time.After(c05Timeout):
			return fmt.Errorf("Manage(%d) did not return", e.N)
		}
		w.lastErr = err != nil
	case "revoke":
		if !certmagic.VerifMaintainMarkRevoked(w.cache, w.hashOf[e.ID], 0) {
			return fmt.Errorf("certificate %d is not in the cache", e.ID)
		}
	case "ocsp":
		fin := make(chan struct{})
		go func() {
			gid := c05GID()
			w.mu.Lock()
			w.actors[gid] = true
			w.ocspG[gid] = true
			w.ocspOrd = nil
			w.mu.Unlock()
			if err := w.protect("updateOCSPStaples", func() error { certmagic.VerifMaintainUpdateOCSPStaples(w.ctx, w.cache); return nil }); err != nil {
				w.mu.Lock()
				w.ocspPanicked = true
				w.mu.Unlock()
			}
			w.mu.Lock()
			delete(w.actors, gid)
			delete(w.ocspG, gid)
			w.mu.Unlock()
			close(fin)
		}()
		select {
		case <-fin:
		case <-time.After(c05Timeout):
			return fmt.Errorf("the OCSP pass did not return")
		}
		w.mu.Lock()
		if w.ocspPanicked {
			w.lastErr = true
			w.ocspPanicked = false
		}
		w.mu.Unlock()
	default:
		return fmt.Errorf("unknown event kind %q", e.Kind)
	}
	return w.settle()
}

func (w *c05World) describe(leaf *x509.Certificate, managed bool) (c05Cert, error) {
	// names as certmagic lists them: CommonName first, then the other SANs
	var ns []string
	if leaf.Subject.CommonName != "" {
		ns = append(ns, strings.ToLower(leaf.Subject.CommonName))
	}
	for _, d := range leaf.DNSNames {
		if d != leaf.Subject.CommonName {
			ns = append(ns, strings.ToLower(d))
		}
	}
	c := c05Cert{ID: int(leaf.SerialNumber.Int64() - 101), Man: managed}
	for i, s := range ns {
		x := w.nameIndex(s)
		if x < 0 {
			return c, fmt.Errorf("certificate for unknown name %q", s)
		}
		if i == 0 {
			c.Head = x
		} else {
			c.Rest = append(c.Rest, x)
		}
	}
	// due = in the last third of its lifetime (the harness only makes certificates that are
	// days away from that threshold, so the clock cannot matter)
	life := leaf.NotAfter.Sub(leaf.NotBefore)
	c.Due = time.Now().After(leaf.NotAfter.Add(-life / 3))
	c.Expired = time.Now().After(leaf.NotAfter)
	// oracle: the classification is certmagic's own verdict
	c05DueChecked++
	if (certmagic.Certificate{Certificate: tls.Certificate{Leaf: leaf}}).NeedsRenewal(w.cfg) != c.Due {
		c05DueMismatch++
	}
	return c, nil
}

func (w *c05World) observe() (*c05Obs, error) {
	o := &c05Obs{Err: w.lastErr, Rev: []int{}}
	w.mu.Lock()
	o.Panics, w.panics = w.panics, nil
	o.Starved, w.starved = w.starved, nil
	w.mu.Unlock()
	if len(o.Panics) > 0 {
		o.Err = true
	}
	certs, index := certmagic.VerifMaintainCacheSnapshot(w.cache)
	idOf := map[string]int{}
	ariAlias := map[int]int{}
	for _, cc := range certs {
		if cc.Leaf == nil {
			return nil, fmt.Errorf("cache entry without leaf")
		}
		d, err := w.describe(cc.Leaf, cc.Managed)
		if err != nil {
			return nil, err
		}
		if cc.ARIDue {
			alias, ok := w.aliasOf[d.ID]
			if !ok {
				return nil, fmt.Errorf("cache entry %d has a selected ARI time but no alias", d.ID)
			}
			ariAlias[d.ID] = alias
			d.ID, d.Due = alias, true
		}
		idOf[cc.Hash] = d.ID
		o.Cache = append(o.Cache, d)
		if cc.Revoked {
			o.Rev = append(o.Rev, d.ID)
		}
	}
	sort.Slice(o.Cache, func(i, j int) bool { return o.Cache[i].ID < o.Cache[j].ID })
	sort.Ints(o.Rev)
	w.hashOf = map[int]string{}
	for h, id := range idOf {
		w.hashOf[id] = h
	}
	w.last = o
	for n := 0; n < w.k; n++ {
		// storage
		nm := w.names[n]
		// the bundle under each issuer's key; "the stored certificate" is the most recently issued one
		var newest *c05Cert
		per := make([]*c05Cert, 2)
		for ik, issKey := range c05IssuerKeys {
			crt, ok1 := w.be.Get(certmagic.StorageKeys.SiteCert(issKey, nm))
			_, ok2 := w.be.Get(certmagic.StorageKeys.SitePrivateKey(issKey, nm))
			_, ok3 := w.be.Get(certmagic.StorageKeys.SiteMeta(issKey, nm))
			if !(ok1 && ok2 && ok3) {
				continue
			}
			blk, _ := pem.Decode(crt)
			if blk == nil {
				return nil, fmt.Errorf("stored certificate of %s is not PEM", nm)
			}
			leaf, err := x509.ParseCertificate(blk.Bytes)
			if err != nil {
				return nil, err
			}
			d, err := w.describe(leaf, true)
			if err != nil {
				return nil, err
			}
			dd := d
			per[ik] = &dd
			if newest == nil || d.ID > newest.ID {
				newest = &dd
			}
		}
		o.Bundles = append(o.Bundles, per)
		o.Store = append(o.Store, newest)
		// name index
		ids := []int{}
		for _, h := range index[nm] {
			if id, ok := idOf[h]; ok {
				ids = append(ids, id)
			} else {
				ids = append(ids, 999) // index entry without a cache entry
			}
		}
		sort.Ints(ids)
		o.Index = append(o.Index, ids)
		// served: asked only when exactly one cached certificate lists the name
		cands := 0
		for _, c := range o.Cache {
			if c.Head == n {
				cands++
			}
			for _, r := range c.Rest {
				if r == n {
					cands++
				}
			}
		}
		served := -1
		if cands == 1 {
			func() {
				hello, closeHello := doubles.Hello(nm)
				defer closeHello()
				defer func() {
					if r := recover(); r != nil {
						served = 998 // the handshake panicked
					}
				}()
				tc, err := w.cfg.GetCertificate(hello)
				if err == nil && tc != nil && len(tc.Certificate) > 0 {
					if leaf, err := x509.ParseCertificate(tc.Certificate[0]); err == nil {
						served = int(leaf.SerialNumber.Int64() - 101)
						if al, ok := ariAlias[served]; ok {
							served = al
						}
					}
				}
			}()
		}
		o.Served = append(o.Served, served)
	}
	o.Issued = make([]int, w.k)
	o.Failed = make([]int, w.k)
	// successful Issue calls of either issuer; a failed *attempt* = a failed call of the last issuer of
	// the chain (it is only asked when the ones before it have failed)
	for ik, iss := range []*doubles.IssuerDouble{w.iss, w.issB} {
		for _, c := range iss.CallsSnapshot() {
			if len(c.Names) != 1 {
				return nil, fmt.Errorf("Issue call for %v", c.Names)
			}
			n := w.nameIndex(c.Names[0])
			if n < 0 {
				return nil, fmt.Errorf("Issue call for unknown name %v", c.Names)
			}
			if c.Err == "" {
				o.Issued[n]++
				if ik == 1 {
					o.failovers++
				}
			} else if ik == 1 {
				o.Failed[n]++
			}
		}
	}
	w.mu.Lock()
	o.Jobs = []int{}
	for n := range w.jobs {
		for _, j := range w.jobs[n] {
			code := n*6 + j.phase
			if j.renew {
				code += 3
			}
			o.Jobs = append(o.Jobs, code)
		}
	}
	w.mu.Unlock()
	sort.Ints(o.Jobs)
	// cross-check with the job manager's own dedup set: a disagreement shows up as a job code
	// outside the universe (which neither the model nor the specification accepts)
	snap := certmagic.VerifMaintainJobsSnapshot()
	var want, have []string
	for _, code := range o.Jobs {
		if code%6 >= 3 {
			want = append(want, w.names[code/6])
		}
	}
	for _, x := range snap.Names {
		if i := w.nameInKey(x); i >= 0 {
			have = append(have, w.names[i])
		} else {
			have = append(have, x)
		}
	}
	sort.Strings(want)
	sort.Strings(have)
	if strings.Join(want, ",") != strings.Join(have, ",") {
		o.Jobs = append(o.Jobs, 6*w.k+5)
	}
	return o, nil
}

// finish cancels everything and waits for the job manager to drain.
func (w *c05World) finish() error {
	w.stop()
	w.mu.Lock()
	w.draining = true
	for gid, a := range w.pending {
		close(a.release)
		delete(w.pending, gid)
	}
	for _, p := range w.passes {
		if !p.passed {
			close(p.release)
		}
	}
	w.mu.Unlock()
	for _, p := range w.passes {
		if !p.passed {
			select {
			case <-p.done:
			case <-time.After(c05Timeout):
				return fmt.Errorf("pass %d did not return at the end", p.id)
			}
		}
	}
	deadline := time.Now().Add(c05Timeout)
	for {
		snap := certmagic.VerifMaintainJobsSnapshot()
		if snap.ActiveWorkers == 0 && len(snap.Queue) == 0 {
			break
		}
		if time.Now().After(deadline) {
			return fmt.Errorf("job manager did not drain: %+v", snap)
		}
		time.Sleep(100 * time.Microsecond)
	}
	w.mu.Lock()
	for n := range w.jobs {
		w.jobs[n] = nil
	}
	w.passes = map[int]*c05Pass{}
	w.mu.Unlock()
	w.lastErr = false
	w.cache.Stop()
	w.be.Log.Hook = nil
	return nil
}

// ---------------------------------------------------------------- wire encoding

func c05EncCert(e *emit.Enc, c c05Cert) {
	e.Int(c.ID).Int(c.Head).Len(len(c.Rest))
	for _, r := range c.Rest {
		e.Int(r)
	}
	e.Bool(c.Due).Bool(c.Man)
}

func c05EncObs(e *emit.Enc, o *c05Obs) {
	e.Len(len(o.Cache))
	for _, c := range o.Cache {
		c05EncCert(e, c)
	}
	e.Len(len(o.Store))
	for _, s := range o.Store {
		if s == nil {
			e.Bool(false)
		} else {
			e.Bool(true)
			c05EncCert(e, *s)
		}
	}
	e.Len(len(o.Index))
	for _, ix := range o.Index {
		e.Len(len(ix))
		for _, x := range ix {
			e.Int(x)
		}
	}
	e.Len(len(o.Served))
	for _, s := range o.Served {
		if s < 0 {
			e.Bool(false)
		} else {
			e.Bool(true).Int(s)
		}
	}
	for _, l := range [][]int{o.Issued, o.Failed, o.Jobs} {
		e.Len(len(l))
		for _, x := range l {
			e.Int(x)
		}
	}
	e.Bool(o.Err)
	e.Len(len(o.Rev))
	for _, x := range o.Rev {
		e.Int(x)
	}
}

func c05EncEvent(e *emit.Enc, ev c05Event) {
	switch ev.Kind {
	case "revoke":
		e.Int(1).Int(ev.ID)
		return
	case "ocsp":
		e.Int(2).Len(len(ev.Ord))
		for _, n := range ev.Ord {
			e.Int(n)
		}
		return
	}
	e.Int(0) // an event of the core model
	switch ev.Kind {
	case "scan":
		e.Int(0).Int(ev.P)
	case "act":
		e.Int(1).Int(ev.P)
	case "ext":
		e.Int(2).Int(ev.N).Len(len(ev.Rest))
		for _, r := range ev.Rest {
			e.Int(r)
		}
	case "issuer":
		e.Int(3).Int(ev.N).Bool(ev.Chain) // the model's issuer is the whole chain

	case "job":
		e.Int(4).Int(ev.N).Int(ev.K)
	case "manage":
		e.Int(5).Int(ev.N).Bool(ev.Async)
	}
}

// ---------------------------------------------------------------- running one history

type c05Result struct {
	hist  c05Hist // with the events that were actually carried out
	obs0  *c05Obs
	obs   []*c05Obs
	final *c05Obs // after cancelling the context and draining all jobs
	feats map[string]bool
}

// c05Chooser picks the next event given the situation (nil = stop).
type c05Chooser func(w *c05World, i int) *c05Event

func runC05History(h *c05Hist, choose c05Chooser) (res *c05Result, err error) {
	w := c05NewWorld(h)
	finished := false
	defer func() {
		if !finished {
			if ferr := w.finish(); ferr != nil && err == nil {
				err = ferr
			}
		}
	}()
	if err := w.setup(h); err != nil {
		return nil, err
	}
	res = &c05Result{hist: *h, feats: map[string]bool{}}
	res.hist.Events = nil
	if res.obs0, err = w.observe(); err != nil {
		return nil, err
	}
	prev := res.obs0
	for i := 0; i < 200; i++ {
		ev := choose(w, i)
		if ev == nil {
			break
		}
		if !w.enabled(*ev) {
			continue
		}
		if err := w.do(*ev); err != nil {
			if w.starvedSeen {
				break // jobs that got no worker were observed (and reported); what follows cannot be attributed reliably
			}
			return nil, fmt.Errorf("event %d %+v: %v", len(res.hist.Events), *ev, err)
		}
		o, err := w.observe()
		if err != nil && w.starvedSeen {
			break
		}
		if err != nil {
			return nil, fmt.Errorf("observing after event %d %+v: %v", len(res.hist.Events), *ev, err)
		}
		if ev.Kind == "ocsp" {
			ev.Ord = append([]int(nil), w.ocspOrd...)
		}
		if ev.Kind == "issuer" {
			ev.Chain = w.failing[0][ev.N] && w.failing[1][ev.N]
		}
		res.hist.Events = append(res.hist.Events, *ev)
		res.obs = append(res.obs, o)
		c05Features(res.feats, *ev, prev, o)
		prev = o
	}
	// shut down: cancel the context, let every job and pass run to its end, look again
	finished = true
	if err := w.finish(); err != nil {
		return nil, err
	}
	if res.final, err = w.observe(); err != nil {
		return nil, fmt.Errorf("observing after shutdown: %v", err)
	}
	if len(res.final.Cache) != len(prev.Cache) {
		res.feats["cache_changed_at_shutdown"] = true
	}
	return res, nil
}

func c05Sum(l []int) int {
	s := 0
	for _, x := range l {
		s += x
	}
	return s
}

func c05Features(f map[string]bool, ev c05Event, b, a *c05Obs) {
	ids := func(o *c05Obs) string {
		var s []string
		for _, c := range o.Cache {
			s = append(s, strconv.Itoa(c.ID))
		}
		return strings.Join(s, ",")
	}
	if c05Sum(a.Issued) > c05Sum(b.Issued) {
		f["issued"] = true
		if ev.Kind == "job" {
			f["issued_by_job"] = true
		}
	}
	if c05Sum(a.Failed) > c05Sum(b.Failed) {
		f["issue_failed"] = true
	}
	if ids(a) != ids(b) {
		f["cache_changed"] = true
		if ev.Kind == "act" {
			f["adopted_in_pass"] = true
		}
		if ev.Kind == "job" {
			f["reloaded_by_job"] = true
		}
	}
	if len(a.Jobs) > len(b.Jobs) {
		f["job_submitted"] = true
	}
	if ev.Kind == "act" && len(a.Jobs) == len(b.Jobs) && len(a.Jobs) > 0 && ids(a) == ids(b) {
		f["act_with_live_jobs"] = true // candidates for de-duplication
	}
	if ev.Kind == "ext" {
		f["external_renewal"] = true
		if b.Bundles[ev.N][1-ev.Iss%2] != nil {
			f["external_renewal_under_other_issuer_key"] = true
		}
	}
	if a.failovers > b.failovers {
		f["issued_by_backup_issuer"] = true
	}
	for n := range a.Bundles {
		if a.Bundles[n][0] != nil && a.Bundles[n][1] != nil {
			f["bundles_under_both_issuers"] = true
			if ids(a) != ids(b) {
				f["cache_changed_with_bundles_under_both_issuers"] = true
			}
		}
	}
	if a.Err {
		f["error_returned"] = true
	}
	if len(a.Panics) > 0 {
		f["code_under_test_panicked"] = true
	}
	if len(a.Starved) > 0 {
		f["queued_job_got_no_worker"] = true
	}
	if ev.Kind == "revoke" && len(a.Rev) > len(b.Rev) {
		f["certificate_revoked"] = true
	}
	if ev.Kind == "ocsp" {
		for _, c := range b.Cache {
			if !c.Man || !c05Has(b.Rev, c.ID) {
				continue
			}
			f["ocsp_pass_over_revoked"] = true
			gone := true
			for _, x := range a.Cache {
				if x.ID == c.ID {
					gone = false
				}
			}
			switch {
			case !gone:
				f["revoked_still_cached"] = true
			case a.Issued[c.Head] > b.Issued[c.Head]:
				f["revoked_replaced"] = true
				if b.Store[c.Head] != nil && !b.Store[c.Head].Due {
					f["forced_renewal_of_fresh_stored"] = true
				}
			default:
				f["revoked_removed_renewal_failed"] = true
			}
		}
		if len(b.Jobs) > 0 {
			f["ocsp_pass_with_live_jobs"] = true
		}
	}
	for _, x := range a.Jobs {
		if x%3 == 1 {
			f["job_holds_lock"] = true
		}
	}
}

func c05Emit(w *emit.Writer, class string, res *c05Result) {
	h := &res.hist
	e := &emit.Enc{}
	e.Int(h.K).Len(len(h.OD))
	for _, b := range h.OD {
		e.Bool(b)
	}
	e.Bool(h.IDue)
	nStore := 0
	for _, id := range h.Store {
		if id >= 0 {
			nStore++
		}
	}
	e.Len(nStore)
	for n, id := range h.Store {
		if id >= 0 {
			e.Int(n)
			c05EncCert(e, h.Certs[id])
		}
	}
	e.Len(len(h.Cache))
	for _, id := range h.Cache {
		c05EncCert(e, h.Certs[id])
	}
	e.Int(len(h.Certs))
	c05EncObs(e, res.obs0)
	e.Len(len(h.Events))
	for i, ev := range h.Events {
		c05EncEvent(e, ev)
		c05EncObs(e, res.obs[i])
	}
	c05EncObs(e, res.final)
	// the bundles under each issuer's key, for the initial and every later observation
	all := append([]*c05Obs{res.obs0}, res.obs...)
	e.Len(len(all))
	for _, o := range all {
		e.Len(len(o.Bundles))
		for _, per := range o.Bundles {
			e.Len(len(per))
			for _, b := range per {
				if b == nil {
					e.Bool(false)
				} else {
					e.Bool(true)
					c05EncCert(e, *b)
				}
			}
		}
	}
	var feats []string
	for k := range res.feats {
		feats = append(feats, k)
	}
	sort.Strings(feats)
	kinds := map[string]int{}
	for _, ev := range h.Events {
		kinds[ev.Kind]++
		w.Hist("event=" + ev.Kind)
		if ev.Kind == "manage" {
			if ev.Async {
				w.Hist("manage=async")
			} else {
				w.Hist("manage=sync")
			}
		}
	}
	for _, f := range feats {
		w.Hist("saw=" + f)
	}
	w.Hist("class=" + class)
	w.Hist(fmt.Sprintf("events=%d", (len(h.Events)+4)/5*5))
	w.Hist(fmt.Sprintf("names=%d", h.K))
	if h.IDue {
		w.Hist("issuer_hands_out_due=true")
	}
	if h.Bounded {
		w.Hist("cache=bounded-and-full")
	}
	if h.Wild {
		w.Hist("names=wildcard-and-covered-name")
	}
	for _, c := range h.Certs {
		switch {
		case c.Ari:
			w.Hist("cert=cache-copy-due-by-ARI-of-the-stored-one")
		case !c.Man:
			w.Hist("cert=unmanaged")
		case c.Expired:
			w.Hist("cert=expired")
		case c.Due:
			w.Hist("cert=due")
		default:
			w.Hist("cert=fresh")
		}
		if len(c.Rest) > 0 {
			w.Hist("cert=multi-san")
		}
	}
	for _, b := range h.OD {
		if b {
			w.Hist("config=on-demand")
		}
	}
	nontrivial := res.feats["cache_changed"] || res.feats["issued"] || res.feats["issue_failed"] || res.feats["job_submitted"]
	w.Add(emit.Case{
		Desc:       map[string]any{"class": class, "events": len(h.Events), "features": feats},
		In:         h,
		Obs:        map[string]any{"initial": res.obs0, "after_each_event": res.obs, "after_shutdown": res.final},
		Wire:       e.String(),
		Nontrivial: nontrivial,
	})
}

// scripted chooser: play the list (events that are not possible in the situation are skipped)
func c05Script(evs []c05Event) c05Chooser {
	return func(_ *c05World, i int) *c05Event {
		if i >= len(evs) {
			return nil
		}
		return &evs[i]
	}
}

// random chooser
func c05Random(r *rand.Rand, h *c05Hist, n int) c05Chooser {
	nextPass := 0
	return func(w *c05World, i int) *c05Event {
		if i >= n {
			return nil
		}
		for try := 0; try < 50; try++ {
			var ev c05Event
			name := r.Intn(h.K)
			x := r.Intn(100)
			if x >= 86 {
				// revocation (only with an issuer whose certificates are not already due)
				if h.IDue || w.last == nil || len(w.last.Cache) == 0 {
					continue
				}
				if x < 94 {
					c := w.last.Cache[r.Intn(len(w.last.Cache))]
					ev := c05Event{Kind: "revoke", ID: c.ID}
					if !w.enabled(ev) {
						continue
					}
					return &ev
				}
				ev := c05Event{Kind: "ocsp"}
				if !w.enabled(ev) {
					continue
				}
				return &ev
			}
			x = x * 100 / 86
			switch {
			case x < 14:
				w.mu.Lock()
				np := len(w.passes)
				w.mu.Unlock()
				if np >= 2 {
					continue
				}
				ev = c05Event{Kind: "scan", P: nextPass}
			case x < 30:
				w.mu.Lock()
				var ps []int
				for p := range w.passes {
					ps = append(ps, p)
				}
				w.mu.Unlock()
				if len(ps) == 0 {
					continue
				}
				sort.Ints(ps)
				ev = c05Event{Kind: "act", P: ps[r.Intn(len(ps))]}
			case x < 38:
				ev = c05Event{Kind: "ext", N: name, Iss: r.Intn(2)}
				if r.Intn(3) == 0 {
					other := r.Intn(h.K)
					if other != name {
						ev.Rest = []int{other}
					}
				}
			case x < 48:
				ev = c05Event{Kind: "issuer", N: name, Fail: r.Intn(2) == 0, Iss: []int{0, 1, 1, 2}[r.Intn(4)]}
			case x < 80:
				// prefer a name that has a job
				w.mu.Lock()
				var have []int
				for n := range w.jobs {
					if len(w.jobs[n]) > 0 {
						have = append(have, n)
					}
				}
				w.mu.Unlock()
				if len(have) == 0 {
					continue
				}
				jn := have[r.Intn(len(have))]
				w.mu.Lock()
				nj := len(w.jobs[jn])
				w.mu.Unlock()
				ev = c05Event{Kind: "job", N: jn, K: r.Intn(nj)}
			default:
				ev = c05Event{Kind: "manage", N: name, Async: r.Intn(2) == 0}
			}
			if !w.enabled(ev) {
				continue
			}
			if ev.Kind == "scan" {
				nextPass++
			}
			return &ev
		}
		return nil
	}
}

// ---------------------------------------------------------------- generators

// c05Initial builds an initial situation. age: 0 none, 1 fresh, 2 due, 3 expired.
type c05NameInit struct {
	cached int  // age of the cached managed certificate (0 = not cached)
	stored int  // 0 none, 1 the cached one, 2 another fresh, 3 another due
	od     bool // name handled by the on-demand config
	multi  bool // the cached certificate also lists the next name
	unman  bool // additionally an unmanaged due certificate for the name is cached
	ari    bool // cached = the stored (fresh) certificate, but the cache copy is due by its in-memory ARI
}

func c05Build(inits []c05NameInit, idue bool) *c05Hist {
	h := &c05Hist{K: len(inits), IDue: idue}
	add := func(c c05Cert) int {
		c.ID = len(h.Certs)
		h.Certs = append(h.Certs, c)
		return c.ID
	}
	for n, in := range inits {
		h.OD = append(h.OD, in.od)
		h.Store = append(h.Store, -1)
		var rest []int
		if in.multi && len(inits) > 1 {
			rest = []int{(n + 1) % len(inits)}
		}
		cid := -1
		if in.ari {
			st := add(c05Cert{Head: n, Rest: rest, Man: true})
			h.Store[n] = st
			h.Cache = append(h.Cache, add(c05Cert{Head: n, Rest: rest, Due: true, Man: true, Ari: true, Of: st}))
			if in.unman {
				h.Cache = append(h.Cache, add(c05Cert{Head: n, Due: true, Man: false}))
			}
			continue
		}
		if in.cached > 0 {
			cid = add(c05Cert{Head: n, Rest: rest, Due: in.cached >= 2, Expired: in.cached == 3, Man: true})
			h.Cache = append(h.Cache, cid)
		}
		switch in.stored {
		case 1:
			if cid >= 0 {
				h.Store[n] = cid
			}
		case 2:
			h.Store[n] = add(c05Cert{Head: n, Rest: rest, Man: true})
		case 3:
			h.Store[n] = add(c05Cert{Head: n, Rest: rest, Due: true, Man: true})
		}
		if in.unman {
			h.Cache = append(h.Cache, add(c05Cert{Head: n, Due: true, Man: false}))
		}
	}
	return h
}

func c05Ev(kind string, a ...int) c05Event {
	e := c05Event{Kind: kind}
	switch kind {
	case "scan", "act":
		e.P = a[0]
	case "ext":
		e.N = a[0]
		e.Rest = a[1:]
	case "issuer":
		e.N, e.Fail = a[0], a[1] == 1
		if len(a) > 2 {
			e.Iss = a[2] // 1 the first issuer only, 2 the backup only (default 0: both)
		}
	case "extb": // another instance saves under the second issuer's key
		e.Kind = "ext"
		e.N = a[0]
		e.Rest = a[1:]
		e.Iss = 1
	case "job":
		e.N, e.K = a[0], 0
		if len(a) > 1 {
			e.K = a[1]
		}
	case "manage":
		e.N, e.Async = a[0], a[1] == 1
	case "revoke":
		e.ID = a[0]
	}
	return e
}

func c05Rep(e c05Event, n int) []c05Event {
	var out []c05Event
	for i := 0; i < n; i++ {
		out = append(out, e)
	}
	return out
}

func c05Cat(parts ...[]c05Event) []c05Event {
	var out []c05Event
	for _, p := range parts {
		out = append(out, p...)
	}
	return out
}

type c05Scenario struct {
	class string
	hist  *c05Hist
	evs   []c05Event
}

func c05Scenarios() []c05Scenario {
	var out []c05Scenario
	one := func(e c05Event) []c05Event { return []c05Event{e} }
	pass := func(p int) []c05Event { return []c05Event{c05Ev("scan", p), c05Ev("act", p)} }
	drain := func(n int) []c05Event { return c05Rep(c05Ev("job", n), 4) }
	ages := []int{1, 2, 3}
	// --- maintenance passes over one to three names
	for _, age := range ages {
		for _, stored := range []int{0, 1, 2, 3} {
			for _, multi := range []bool{false, true} {
				for _, idue := range []bool{false, true} {
					if idue && (age == 1 || stored == 2) {
						continue
					}
					base := []c05NameInit{{cached: age, stored: stored, multi: multi}, {cached: 1, stored: 1}, {cached: 2, stored: 1, od: true, unman: true}}
					mk := func() *c05Hist { return c05Build(base, idue) }
					tag := fmt.Sprintf("age%d-stored%d", age, stored)
					out = append(out,
						c05Scenario{"pass-single/" + tag, mk(), c05Cat(pass(0), drain(0), pass(1))},
						c05Scenario{"pass-repeated/" + tag, mk(), c05Cat(pass(0), pass(1), one(c05Ev("job", 0)), pass(2), drain(0), pass(3))},
						c05Scenario{"pass-overlapping/" + tag, mk(), c05Cat(one(c05Ev("scan", 0)), one(c05Ev("scan", 1)), one(c05Ev("act", 0)), one(c05Ev("job", 0)), one(c05Ev("act", 1)), drain(0), pass(2))},
						c05Scenario{"pass-overlapping-late-act/" + tag, mk(), c05Cat(one(c05Ev("scan", 0)), pass(1), drain(0), one(c05Ev("act", 0)), drain(0), pass(2))},
						c05Scenario{"external-before/" + tag, mk(), c05Cat(one(c05Ev("ext", 0)), pass(0), drain(0), pass(1))},
						c05Scenario{"external-between-scan-and-act/" + tag, mk(), c05Cat(one(c05Ev("scan", 0)), one(c05Ev("ext", 0)), one(c05Ev("act", 0)), drain(0), pass(1))},
						c05Scenario{"external-while-job-queued/" + tag, mk(), c05Cat(pass(0), one(c05Ev("ext", 0)), drain(0), pass(1))},
						c05Scenario{"external-while-job-holds-lock/" + tag, mk(), c05Cat(pass(0), one(c05Ev("job", 0)), one(c05Ev("ext", 0)), drain(0), pass(1))},
						c05Scenario{"issuer-fails/" + tag, mk(), c05Cat(one(c05Ev("issuer", 0, 1)), pass(0), c05Rep(c05Ev("job", 0), 3), pass(1), one(c05Ev("job", 0)), pass(2))},
						c05Scenario{"issuer-fails-then-recovers/" + tag, mk(), c05Cat(one(c05Ev("issuer", 0, 1)), pass(0), c05Rep(c05Ev("job", 0), 3), pass(1), one(c05Ev("issuer", 0, 0)), drain(0), pass(2))},
						c05Scenario{"issuer-fails-external-rescues/" + tag, mk(), c05Cat(one(c05Ev("issuer", 0, 1)), pass(0), c05Rep(c05Ev("job", 0), 3), one(c05Ev("ext", 0)), pass(1), drain(0), pass(2))},
					)
					if multi {
						out = append(out, c05Scenario{"external-multi-san/" + tag, mk(), c05Cat(one(c05Ev("ext", 0, 1)), pass(0), drain(0), pass(1))})
					}
				}
			}
		}
	}
	// two due names at once, one failing
	for _, idue := range []bool{false, true} {
		base := []c05NameInit{{cached: 2, stored: 1}, {cached: 3, stored: 1}, {cached: 2, stored: 2}}
		out = append(out,
			c05Scenario{"three-names-mixed", c05Build(base, idue), c05Cat(one(c05Ev("issuer", 1, 1)), pass(0), drain(0), c05Rep(c05Ev("job", 1), 3), pass(1), one(c05Ev("issuer", 1, 0)), drain(1), pass(2))},
			c05Scenario{"three-names-interleaved-jobs", c05Build(base, idue), c05Cat(pass(0), one(c05Ev("job", 0)), one(c05Ev("job", 1)), one(c05Ev("scan", 1)), one(c05Ev("job", 1)), one(c05Ev("job", 0)), one(c05Ev("act", 1)), drain(0), drain(1), pass(2))},
		)
	}
	// --- managing a name
	for _, stored := range []int{0, 1, 2, 3} { // 0 none, 1 fresh, 2 due, 3 expired
		for _, async := range []int{0, 1} {
			for _, fail := range []int{0, 1} {
				for _, idue := range []bool{false, true} {
					if idue && stored == 1 {
						continue
					}
					in := c05NameInit{}
					switch stored {
					case 1:
						in.stored = 2
					case 2, 3:
						in.stored = 3
					}
					h := c05Build([]c05NameInit{in, {cached: 1, stored: 1}, {od: true, stored: 3}}, idue)
					if stored == 3 {
						h.Certs[h.Store[0]].Expired = true
					}
					tag := fmt.Sprintf("stored%d-async%d-fail%d", stored, async, fail)
					evs := c05Cat(one(c05Ev("issuer", 0, fail)), one(c05Ev("manage", 0, async)), c05Rep(c05Ev("job", 0), 3))
					if fail == 1 {
						evs = c05Cat(evs, pass(0), one(c05Ev("issuer", 0, 0)), drain(0))
					}
					// managing again changes nothing; neither does managing a managed or an on-demand name
					evs = c05Cat(evs, one(c05Ev("manage", 0, async)), one(c05Ev("manage", 1, async)), one(c05Ev("manage", 2, async)), pass(1), drain(0))
					out = append(out, c05Scenario{"manage/" + tag, h, evs})
					// another instance obtains / renews while the job waits
					if async == 1 {
						evs2 := c05Cat(one(c05Ev("issuer", 0, fail)), one(c05Ev("manage", 0, 1)), one(c05Ev("ext", 0)), drain(0), pass(0))
						out = append(out, c05Scenario{"manage-external/" + tag, c05Build([]c05NameInit{in, {cached: 1, stored: 1}}, idue), evs2})
						evs3 := c05Cat(one(c05Ev("issuer", 0, fail)), one(c05Ev("manage", 0, 1)), one(c05Ev("job", 0)), one(c05Ev("ext", 0)), drain(0), pass(0))
						out = append(out, c05Scenario{"manage-external-under-lock/" + tag, c05Build([]c05NameInit{in, {cached: 1, stored: 1}}, idue), evs3})
					}
				}
			}
		}
	}
	// ManageAsync of a name whose stored certificate is due, then passes while that renewal job is queued /
	// holds the lock / has ended: the pass's job and manage's job carry the same name and de-duplicate
	for _, expired := range []bool{false, true} {
		for _, fail := range []int{0, 1} {
			for _, idue := range []bool{false, true} {
				h := c05Build([]c05NameInit{{stored: 3}, {cached: 1, stored: 1}}, idue)
				if expired {
					h.Certs[h.Store[0]].Expired = true
				}
				out = append(out, c05Scenario{"manage-async-then-passes", h,
					c05Cat(one(c05Ev("issuer", 0, fail)), one(c05Ev("manage", 0, 1)), pass(0), one(c05Ev("job", 0)), pass(1),
						one(c05Ev("scan", 2)), one(c05Ev("job", 0)), one(c05Ev("act", 2)), one(c05Ev("issuer", 0, 0)), drain(0), pass(3), drain(0), pass(4))})
			}
		}
	}
	// name 0's issuers keep failing (its renewal job sits in its retry loop, holding a worker); then a pass finds
	// name 1 due: its renewal job must get a worker and renew it while name 0 is still retrying
	for _, idue := range []bool{false, true} {
		for _, viaManage := range []bool{false, true} {
			var h *c05Hist
			var start []c05Event
			if viaManage {
				h = c05Build([]c05NameInit{{stored: 3}, {cached: 2, stored: 1}, {cached: 1, stored: 1}}, idue)
				start = one(c05Ev("manage", 0, 1))
			} else {
				h = c05Build([]c05NameInit{{cached: 2, stored: 1}, {stored: 3}, {cached: 1, stored: 1}}, idue)
				start = c05Cat(pass(0), one(c05Ev("manage", 1, 1)))
			}
			out = append(out, c05Scenario{"second-name-renewed-while-first-retries", h,
				c05Cat(one(c05Ev("issuer", 0, 1)), start, c05Rep(c05Ev("job", 0), 3), pass(1), c05Rep(c05Ev("job", 1), 4), pass(2), one(c05Ev("job", 0)), pass(3))})
		}
	}
	// a managed wildcard certificate and a name it covers in one cache: managing the covered name is about exactly that
	// subject — its stored certificate is loaded, obtained when none exists, renewed when due, whatever the wildcard does
	for _, stored := range []int{0, 2, 3} { // the covered name: nothing stored / fresh / due
		for _, async := range []int{0, 1} {
			for _, wcached := range []int{1, 2} { // the wildcard certificate: fresh / due
				for _, idue := range []bool{false, true} {
					if idue && stored == 2 {
						continue
					}
					mk := func(inits []c05NameInit) *c05Hist { h := c05Build(inits, idue); h.Wild = true; return h }
					// wildcard managed first (cached), then the covered name
					out = append(out, c05Scenario{"wildcard-then-covered-name", mk([]c05NameInit{{cached: wcached, stored: 1}, {stored: stored}, {cached: 1, stored: 1}}),
						c05Cat(one(c05Ev("manage", 1, async)), c05Rep(c05Ev("job", 1), 3), pass(0), drain(0), drain(1), one(c05Ev("manage", 1, async)), pass(1))})
					// both managed by calls, wildcard first
					out = append(out, c05Scenario{"wildcard-managed-then-covered-name", mk([]c05NameInit{{stored: 3 - wcached + 1}, {stored: stored}}),
						c05Cat(one(c05Ev("manage", 0, async)), c05Rep(c05Ev("job", 0), 3), one(c05Ev("manage", 1, async)), c05Rep(c05Ev("job", 1), 3), pass(0), drain(0), drain(1), pass(1))})
					// covered name first, wildcard second
					out = append(out, c05Scenario{"covered-name-then-wildcard", mk([]c05NameInit{{stored: stored}, {cached: wcached, stored: 1}}),
						c05Cat(one(c05Ev("manage", 0, async)), c05Rep(c05Ev("job", 0), 3), pass(0), drain(0), drain(1), pass(1))})
				}
			}
		}
	}
	// ManageAsync twice for a name with nothing in storage: two unnamed obtain jobs, one Issue
	for _, fail := range []int{0, 1} {
		for _, idue := range []bool{false, true} {
			out = append(out, c05Scenario{"manage-async-twice", c05Build([]c05NameInit{{}, {cached: 1, stored: 1}}, idue),
				c05Cat(one(c05Ev("issuer", 0, fail)), one(c05Ev("manage", 0, 1)), one(c05Ev("manage", 0, 1)),
					one(c05Ev("job", 0, 1)), one(c05Ev("job", 0, 0)), one(c05Ev("job", 0, 1)), one(c05Ev("job", 0, 1)),
					one(c05Ev("issuer", 0, 0)), one(c05Ev("job", 0, 1)), one(c05Ev("job", 0, 1)), one(c05Ev("job", 0, 0)),
					one(c05Ev("job", 0, 0)), drain(0), pass(0), one(c05Ev("manage", 0, 1)))})
		}
	}
	// an unmanaged certificate covers the name: manage still loads / obtains
	out = append(out,
		c05Scenario{"manage-beside-unmanaged", c05Build([]c05NameInit{{unman: true}, {unman: true, stored: 3}}, false),
			c05Cat(one(c05Ev("manage", 0, 0)), one(c05Ev("manage", 1, 0)), pass(0))},
		c05Scenario{"manage-beside-unmanaged-async", c05Build([]c05NameInit{{unman: true}, {unman: true, stored: 3}}, false),
			c05Cat(one(c05Ev("manage", 0, 1)), one(c05Ev("manage", 1, 1)), drain(0), drain(1), pass(0))},
	)
	// --- two issuers: fail-over to the backup issuer leaves bundles under both issuers' keys; the most recently
	// issued one is the stored certificate (loaded, adopted, compared by the scan, renewed from)
	for _, age := range []int{2, 3} {
		for _, multi := range []bool{false, true} {
			for _, idue := range []bool{false, true} {
				base := []c05NameInit{{cached: age, stored: 1, multi: multi}, {cached: 1, stored: 1}, {cached: 2, stored: 1, od: true}}
				mk := func() *c05Hist { return c05Build(base, idue) }
				tag := fmt.Sprintf("age%d", age)
				failA := one(c05Ev("issuer", 0, 1, 1))
				out = append(out,
					// renewal falls over to the backup issuer; later passes must find the name renewed
					c05Scenario{"failover-renewal/" + tag, mk(), c05Cat(failA, pass(0), drain(0), pass(1), drain(0), pass(2), one(c05Ev("manage", 0, 0)), pass(3))},
					// ... the first issuer recovers: the next renewal (idue) goes to it again, over the backup's bundle
					c05Scenario{"failover-then-recovery/" + tag, mk(), c05Cat(failA, pass(0), drain(0), one(c05Ev("issuer", 0, 0, 1)), pass(1), drain(0), pass(2), drain(0), pass(3))},
					// another instance renewed through the other issuer: adopt, no Issue
					c05Scenario{"external-under-other-issuer/" + tag, mk(), c05Cat(one(c05Ev("extb", 0)), pass(0), drain(0), one(c05Ev("ext", 0)), pass(1), drain(0), pass(2))},
					c05Scenario{"external-under-other-issuer-while-job-queued/" + tag, mk(), c05Cat(pass(0), one(c05Ev("extb", 0)), drain(0), pass(1), drain(0))},
					c05Scenario{"external-under-other-issuer-between-scan-and-act/" + tag, mk(), c05Cat(one(c05Ev("scan", 0)), one(c05Ev("extb", 0)), one(c05Ev("act", 0)), drain(0), pass(1))},
					// both fail, then only the backup works
					c05Scenario{"failover-after-failures/" + tag, mk(), c05Cat(one(c05Ev("issuer", 0, 1)), pass(0), c05Rep(c05Ev("job", 0), 3), one(c05Ev("issuer", 0, 0, 2)), drain(0), pass(1), drain(0), pass(2))},
					// only the backup fails: nothing special happens
					c05Scenario{"backup-fails-only/" + tag, mk(), c05Cat(one(c05Ev("issuer", 0, 1, 2)), pass(0), drain(0), pass(1))},
				)
			}
		}
	}
	// managing a name (a "second instance" in effect: nothing cached) whose bundles lie under both issuers
	for _, async := range []int{0, 1} {
		for _, idue := range []bool{false, true} {
			h := c05Build([]c05NameInit{{stored: 3}, {cached: 1, stored: 1}}, idue)
			out = append(out, c05Scenario{"manage-with-bundles-under-both-issuers", h,
				c05Cat(one(c05Ev("extb", 0)), one(c05Ev("ext", 0)), one(c05Ev("extb", 0)), one(c05Ev("manage", 0, async)), drain(0), pass(0), drain(0), pass(1))})
			h2 := c05Build([]c05NameInit{{stored: 3}, {cached: 1, stored: 1}}, idue)
			out = append(out, c05Scenario{"manage-obtain-failover", c05Build([]c05NameInit{{}, {cached: 1, stored: 1}}, idue),
				c05Cat(one(c05Ev("issuer", 0, 1, 1)), one(c05Ev("manage", 0, async)), drain(0), pass(0), drain(0), one(c05Ev("manage", 0, async)), pass(1))})
			out = append(out, c05Scenario{"manage-renew-failover", h2,
				c05Cat(one(c05Ev("issuer", 0, 1, 1)), one(c05Ev("manage", 0, async)), drain(0), pass(0), drain(0), pass(1))})
		}
	}
	// --- a pass reloads the IDENTICAL certificate: the cache copy is due by its in-memory ARI, the stored resource of
	// the same certificate is not ("already renewed in storage; reloading"): afterwards it must still be cached and
	// answer for all its names
	for _, multi := range []bool{false, true} {
		for _, bounded := range []bool{false, true} {
			base := []c05NameInit{{ari: true, multi: multi}, {cached: 1, stored: 1}, {cached: 2, stored: 1}, {ari: true, od: true}}
			mk := func() *c05Hist { h := c05Build(base, false); h.Bounded = bounded; return h }
			id0 := mk().Cache[0]
			out = append(out,
				c05Scenario{"reload-identical", mk(), c05Cat(pass(0), drain(2), pass(1), drain(2), pass(2))},
				c05Scenario{"reload-identical-overlapping", mk(), c05Cat(one(c05Ev("scan", 0)), one(c05Ev("scan", 1)), one(c05Ev("act", 0)), one(c05Ev("act", 1)), drain(2), pass(2))},
				c05Scenario{"reload-identical-external-between", mk(), c05Cat(one(c05Ev("scan", 0)), one(c05Ev("extb", 0)), one(c05Ev("act", 0)), drain(2), pass(1))},
				c05Scenario{"reload-identical-issuer-fails", mk(), c05Cat(one(c05Ev("issuer", 0, 1)), one(c05Ev("issuer", 2, 1)), pass(0), c05Rep(c05Ev("job", 2), 3), pass(1))},
				c05Scenario{"reload-identical-revoked", mk(), c05Cat(one(c05Ev("revoke", id0)), pass(0), one(c05Ev("ocsp")), drain(2), pass(1))},
			)
		}
	}
	// --- a bounded, full cache: renewals and adoptions replace in place and must not push anything else out
	for _, age := range []int{2, 3} {
		for _, stored := range []int{1, 2, 3} {
			for _, idue := range []bool{false, true} {
				if idue && stored == 2 {
					continue
				}
				base := []c05NameInit{{cached: age, stored: stored, multi: true}, {cached: 1, stored: 1}, {cached: 2, stored: 2}, {cached: 1, stored: 1, unman: true}}
				mk := func() *c05Hist { h := c05Build(base, idue); h.Bounded = true; return h }
				tag := fmt.Sprintf("age%d-stored%d", age, stored)
				out = append(out,
					c05Scenario{"bounded-pass/" + tag, mk(), c05Cat(pass(0), drain(0), pass(1), drain(0), pass(2))},
					c05Scenario{"bounded-external/" + tag, mk(), c05Cat(pass(0), one(c05Ev("extb", 0)), drain(0), one(c05Ev("ext", 1)), pass(1), drain(0), pass(2))},
					c05Scenario{"bounded-failover/" + tag, mk(), c05Cat(one(c05Ev("issuer", 0, 1, 1)), pass(0), drain(0), pass(1), drain(0), pass(2))},
				)
			}
		}
	}
	// --- revocation: "keeps being served as long as it has not been revoked"
	cachedID := func(h *c05Hist, head int) int {
		for _, id := range h.Cache {
			if h.Certs[id].Head == head && h.Certs[id].Man {
				return id
			}
		}
		return -1
	}
	for _, age := range []int{1, 2} {
		for _, stored := range []int{0, 1, 2, 3} {
			for _, fail := range []int{0, 1} {
				for _, multi := range []bool{false, true} {
					base := []c05NameInit{{cached: age, stored: stored, multi: multi}, {cached: 1, stored: 1}, {cached: 1, stored: 1, od: true, unman: true}}
					mk := func() *c05Hist { return c05Build(base, false) }
					h0 := mk()
					id0, id1, id2 := cachedID(h0, 0), cachedID(h0, 1), cachedID(h0, 2)
					tag := fmt.Sprintf("age%d-stored%d-fail%d", age, stored, fail)
					rv := func(id int) []c05Event { return one(c05Ev("revoke", id)) }
					ocsp := one(c05Ev("ocsp"))
					iss := one(c05Ev("issuer", 0, fail))
					out = append(out,
						// an OCSP pass without revocations changes nothing; then the revoked one is replaced / removed,
						// the others stay; managing the name again brings back what storage holds
						c05Scenario{"revoked/" + tag, mk(), c05Cat(iss, ocsp, rv(id0), pass(0), ocsp, pass(1), one(c05Ev("issuer", 0, 0)), one(c05Ev("manage", 0, 0)), ocsp, drain(0), pass(2))},
						c05Scenario{"revoked-between-scan-and-act/" + tag, mk(), c05Cat(iss, one(c05Ev("scan", 0)), rv(id0), ocsp, one(c05Ev("act", 0)), drain(0), ocsp, pass(1))},
						c05Scenario{"revoked-while-job-queued/" + tag, mk(), c05Cat(iss, pass(0), rv(id0), ocsp, drain(0), ocsp, pass(1))},
						c05Scenario{"revoked-after-external-renewal/" + tag, mk(), c05Cat(iss, rv(id0), one(c05Ev("ext", 0)), ocsp, pass(0), drain(0), pass(1))},
						c05Scenario{"revoked-two-names/" + tag, mk(), c05Cat(iss, rv(id0), rv(id1), rv(id1), ocsp, ocsp, pass(0), drain(0))},
						c05Scenario{"revoked-on-demand-and-unmanaged/" + tag, mk(), c05Cat(iss, rv(id2), rv(id2+1), ocsp, rv(id0), ocsp, pass(0), drain(0))},
						c05Scenario{"revoked-while-job-holds-lock/" + tag, mk(), c05Cat(iss, pass(0), one(c05Ev("job", 0)), rv(id0), ocsp, drain(0), ocsp, pass(1))},
					)
				}
			}
		}
	}
	// two revoked certificates for the same first name (a managed one and an on-demand... no: two managed
	// ones can only share a name through multi-SAN; here: names 0 and 1, the second certificate lists both)
	for _, fail := range []int{0, 1} {
		h := c05Build([]c05NameInit{{cached: 1, stored: 1}, {cached: 2, stored: 1, multi: true}}, false)
		out = append(out, c05Scenario{"revoked-overlapping-names", h,
			c05Cat(one(c05Ev("issuer", 1, fail)), one(c05Ev("revoke", 0)), one(c05Ev("revoke", 1)), one(c05Ev("ocsp")), pass(0), drain(0), drain(1), one(c05Ev("ocsp")))})
	}
	return out
}

func c05RandomInit(r *rand.Rand, maxNames int) *c05Hist {
	k := 1 + r.Intn(maxNames)
	inits := make([]c05NameInit, k)
	for i := range inits {
		in := &inits[i]
		in.cached = []int{0, 1, 2, 2, 3}[r.Intn(5)]
		in.stored = r.Intn(4)
		in.od = r.Intn(6) == 0
		in.multi = r.Intn(5) == 0
		in.unman = r.Intn(6) == 0
		in.ari = r.Intn(7) == 0
	}
	// (bounded caches only in scripted histories: a random one can legitimately overflow — a job reloading for a
	// certificate that has left the cache adds without removing — and then evicts a random certificate)
	h := c05Build(inits, r.Intn(5) == 0)
	h.Wild = k >= 2 && r.Intn(3) == 0
	return h
}

func c05Oracles(w *emit.Writer) {
	w.Meta.Oracles = []emit.OracleCheck{{
		Name:   "due/not-due attribute sent to the model = Certificate.NeedsRenewal of the real code, for every certificate observed in cache or storage",
		OK:     c05DueMismatch == 0,
		Detail: fmt.Sprintf("%d observations, %d mismatches", c05DueChecked, c05DueMismatch),
	}}
}

func runC05(tier string, seed int64, outdir string, replay string) error {
	w := emit.NewWriter(outdir, "C05", tier, seed)
	defer w.Close()
	certmagic.VerifMaintainSetRetryIntervals([]time.Duration{time.Millisecond, 2 * time.Millisecond})
	w.Meta.Rule = "distinct histories in which the cache changed, the issuer was called (successfully or not) or a background job was submitted"
	w.Meta.Notes = []string{
		"lock-step: background jobs are released one storage/issuer operation at a time; a pass stops between scan and act at its first Info log entry",
		"two issuers (keys dbl, backup) on one CA: issuer events switch the first, the backup or both; the model's issuer is the chain (failed attempt = failed call of the backup); NotBefore grows by 2 s with every certificate made, so 'latest NotBefore' = 'most recently issued'; Store = most recently issued of the bundles under both keys, checked against Issuers.newest",
		"IssuerDouble does not implement RenewalInfoGetter: ARI paths are inert; harness certificates carry no OCSP responder: nothing is stapled; a Revoked status is set on a cache entry through the hook VerifMaintainMarkRevoked, the OCSP pass is the real updateOCSPStaples",
		"a forced renewal (revocation) inside the OCSP pass is ended after one failed attempt by an ErrNoRetry answer of the issuer double; OCSP passes only with an issuer whose certificates are not already due",
	}
	if replay != "" {
		rc, err := loadReplay(replay)
		if err != nil {
			return err
		}
		var h c05Hist
		if err := json.Unmarshal(rc.In, &h); err != nil {
			return err
		}
		class, _ := rc.Desc["class"].(string)
		res, err := runC05History(&h, c05Script(h.Events))
		if err != nil {
			return err
		}
		c05Emit(w, class, res)
		c05Oracles(w)
		return nil
	}
	skipped := 0
	for _, sc := range c05Scenarios() {
		res, err := runC05History(sc.hist, c05Script(sc.evs))
		if err != nil {
			return fmt.Errorf("scenario %s: %v", sc.class, err)
		}
		cls := sc.class
		if i := strings.IndexByte(cls, '/'); i >= 0 {
			cls = cls[:i]
		}
		c05Emit(w, cls, res)
	}
	r := rand.New(rand.NewSource(seed))
	nRand, length, maxNames := 400, 16, 4
	if tier == "thorough" {
		nRand, length, maxNames = 2500, 30, 5
	}
	for i := 0; i < nRand; i++ {
		h := c05RandomInit(r, maxNames)
		res, err := runC05History(h, c05Random(r, h, length))
		if err != nil {
			return fmt.Errorf("random history %d: %v", i, err)
		}
		c05Emit(w, "random", res)
	}
	w.Meta.Extra = map[string]any{"skipped_boundary": skipped}
	c05Oracles(w)
	return nil
}
