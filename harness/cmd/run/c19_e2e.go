//go:build !skip_c19_e2e

package main

import (
	"context"
	"crypto/ecdsa"
	"crypto/elliptic"
	crand "crypto/rand"
	"crypto/x509"
	"encoding/json"
	"errors"
	"fmt"
	"math/rand"
	"net/http"
	"net/url"
	"sync"
	"sync/atomic"
	"time"

	"github.com/caddyserver/certmagic"
	"go.uber.org/zap"

	"verifharness/pkg/doubles"
	"verifharness/pkg/emit"
)

// End-to-end tie of the test-CA logic: the real ACMEIssuer against two mock ACME CAs
// (production, test) whose newOrder answers are scripted per case.
//
//	mode "issue": one call of ACMEIssuer.Issue with the attempts counter in the context;
//	mode "async": Config.ObtainCertAsync (doWithRetry with a shrunk table) with the real issuer,
//	              then the certificate is loaded from storage and served through GetCertificate.
//
// Observed independently of certmagic: which CA received which order, in what sequence (the CAs'
// own logs), and which CA's key signed the certificate that was returned / stored / served.
type c19E2EPlan struct {
	Mode     string   `json:"mode"`
	Attempts int      `json:"attempts,omitempty"`
	TestCA   string   `json:"test_ca"` // distinct | same | none
	Prod     []string `json:"prod_orders"`
	Test     []string `json:"test_orders"`
}

type c19E2EOrder struct {
	Dir     string `json:"directory"`
	Outcome string `json:"outcome"`
}

type c19E2EAtt struct {
	No     int           `json:"attempt"`
	Orders []c19E2EOrder `json:"orders"`
	Res    int           `json:"result"` // 0 certificate, 1 retryable error, 2 ErrNoRetry
	From   int           `json:"signed_by"`
	Err    string        `json:"error,omitempty"`
}

type c19E2EObs struct {
	CA, TestCA       string
	ProdURL, TestURL string
	Atts             []c19E2EAtt `json:"attempts"`
	Final            int         `json:"final"` // 0 nil, 1 other error, 2 ErrNoRetry
	Stored           int         `json:"stored_signed_by"`
	Served           int         `json:"served_signed_by"`
	Note             string      `json:"note,omitempty"`
}

var c19E2ESerial atomic.Int64

// c19IssWrap is the real issuer with Issue bracketed by the harness (attempt number from the
// context, the orders the CAs saw during the call, the result).
type c19IssWrap struct {
	*certmagic.ACMEIssuer
	env *c1719Env
	tag string
	mu  sync.Mutex
	obs *c19E2EObs
}

// c19Probe is an issuer double placed AFTER the real ACME issuer in cfg.Issuers: it never issues;
// it records what the context of the issuer loop carries under AttemptsCtxKey when the ACME
// issuer has failed (the attempt number, or -1 when the value is not a *int), and how many
// orders the CAs had seen by then (= the end of that attempt).
type c19Probe struct {
	env   *c1719Env
	tag   string
	mu    sync.Mutex
	calls []c19ProbeCall
}

type c19ProbeCall struct {
	No     int
	Orders int
}

func (p *c19Probe) IssuerKey() string { return "c19probe" }

func (p *c19Probe) Issue(ctx context.Context, csr *x509.CertificateRequest) (*certmagic.IssuedCertificate, error) {
	no := -1
	if a, ok := ctx.Value(certmagic.AttemptsCtxKey).(*int); ok && a != nil {
		no = *a
	}
	n := len(p.env.orders(p.tag))
	p.mu.Lock()
	p.calls = append(p.calls, c19ProbeCall{No: no, Orders: n})
	p.mu.Unlock()
	return nil, errors.New("c19probe: does not issue")
}

func c19ResClass(err error) int {
	var nr certmagic.ErrNoRetry
	switch {
	case err == nil:
		return 0
	case errors.As(err, &nr):
		return 2
	}
	return 1
}

func (w *c19IssWrap) Issue(ctx context.Context, csr *x509.CertificateRequest) (*certmagic.IssuedCertificate, error) {
	no := -1
	if a, ok := ctx.Value(certmagic.AttemptsCtxKey).(*int); ok && a != nil {
		no = *a
	}
	start := len(w.env.orders(w.tag))
	ic, err := w.ACMEIssuer.Issue(ctx, csr)
	all := w.env.orders(w.tag)
	att := c19E2EAtt{No: no, Res: c19ResClass(err), From: -1}
	if err != nil {
		att.Err = err.Error()
		if len(att.Err) > 160 {
			att.Err = att.Err[:160]
		}
	}
	for _, o := range all[start:] {
		att.Orders = append(att.Orders, c19E2EOrder{Dir: w.env.cas[o.CA].URL, Outcome: o.Outcome})
	}
	if ic != nil {
		att.From = w.env.signerOf(ic.Certificate)
	}
	w.mu.Lock()
	w.obs.Atts = append(w.obs.Atts, att)
	w.mu.Unlock()
	return ic, err
}

func c19E2ERun(env *c1719Env, p c19E2EPlan) c19E2EObs {
	id := c19E2ESerial.Add(1)
	tag := fmt.Sprintf("c19e2e-%d-%d", time.Now().UnixNano()%1000000, id)
	name := fmt.Sprintf("%s.example.com", tag)
	obs := c19E2EObs{ProdURL: env.cas[0].URL, TestURL: env.cas[1].URL, Stored: -1, Served: -1}
	b := doubles.NewMemBackend()
	cfg, cache := doubles.NewConfig(b.Handle("i"), certmagic.Config{}, certmagic.CacheOptions{})
	defer cache.Stop()
	tmpl := certmagic.ACMEIssuer{CA: env.cas[0].URL, Email: tag + "@example.com", Agreed: true, TrustedRoots: env.cas[0].Roots(),
		Logger: zap.NewNop(), HTTPProxy: func(*http.Request) (*url.URL, error) { return nil, nil }}
	switch p.TestCA {
	case "distinct":
		tmpl.TestCA = env.cas[1].URL
	case "same":
		tmpl.TestCA = env.cas[0].URL
	}
	iss := certmagic.NewACMEIssuer(cfg, tmpl)
	obs.CA, obs.TestCA = iss.CA, iss.TestCA
	wrap := &c19IssWrap{ACMEIssuer: iss, env: env, tag: tag, obs: &obs}
	cfg.Issuers = []certmagic.Issuer{wrap}
	env.register(tag, p.Prod, p.Test, time.Now())
	ctx, cancel := context.WithTimeout(context.Background(), 60*time.Second)
	defer cancel()
	switch p.Mode {
	case "issue":
		key, _ := ecdsa.GenerateKey(elliptic.P256(), crand.Reader)
		der, _ := x509.CreateCertificateRequest(crand.Reader, &x509.CertificateRequest{DNSNames: []string{name}}, key)
		csr, _ := x509.ParseCertificateRequest(der)
		if err := iss.PreCheck(ctx, []string{name}, false); err != nil {
			obs.Note = "PreCheck: " + err.Error()
		}
		attempts := p.Attempts
		ictx := context.WithValue(ctx, certmagic.AttemptsCtxKey, &attempts)
		ic, err := wrap.Issue(ictx, csr)
		obs.Final = c19ResClass(err)
		if ic != nil {
			obs.Stored = env.signerOf(ic.Certificate)
		}
		obs.Served = obs.Stored
	case "renew":
		// a certificate from the production CA is in storage (obtained first, through the same
		// issuer: its metadata names this CA, ARI is left enabled); then a forced background renewal
		// with the REAL issuer in cfg.Issuers (renewCert marks the context for *ACMEIssuer only),
		// followed by the probe double
		cfg.Issuers = []certmagic.Issuer{iss}
		env.register(tag, append([]string{"ok"}, p.Prod...), p.Test, time.Now())
		if err := cfg.ObtainCertSync(ctx, name); err != nil {
			obs.Note = "initial obtain: " + err.Error()
			obs.Final = 1
			return obs
		}
		first := len(env.orders(tag))
		probe := &c19Probe{env: env, tag: tag}
		cfg.Issuers = []certmagic.Issuer{iss, probe}
		err := cfg.RenewCertAsync(ctx, name, true)
		obs.Final = c19ResClass(err)
		if err != nil && ctx.Err() != nil {
			obs.Note = "harness deadline: " + err.Error()
		}
		if pemBytes, lerr := b.Handle("probe").Load(context.Background(), certmagic.StorageKeys.SiteCert(iss.IssuerKey(), name)); lerr == nil {
			obs.Stored = env.signerOf(pemBytes)
		}
		obs.Served = obs.Stored
		// attempts: a probe call ends a failed attempt; the orders after the last one are the
		// successful attempt (its number is the position: nothing reports it)
		all := env.orders(tag)
		mk := func(from, to int) []c19E2EOrder {
			var os []c19E2EOrder
			for _, o := range all[from:to] {
				os = append(os, c19E2EOrder{Dir: env.cas[o.CA].URL, Outcome: o.Outcome})
			}
			return os
		}
		prev := first
		probe.mu.Lock()
		for _, c := range probe.calls {
			obs.Atts = append(obs.Atts, c19E2EAtt{No: c.No, Orders: mk(prev, min(c.Orders, len(all))), Res: 1, From: -1})
			prev = min(c.Orders, len(all))
		}
		nProbe := len(probe.calls)
		probe.mu.Unlock()
		if err == nil {
			obs.Atts = append(obs.Atts, c19E2EAtt{No: nProbe, Orders: mk(prev, len(all)), Res: 0, From: obs.Stored})
		}
	case "async":
		err := cfg.ObtainCertAsync(ctx, name)
		obs.Final = c19ResClass(err)
		if err != nil && ctx.Err() != nil {
			obs.Note = "harness deadline: " + err.Error()
		}
		// what is in storage, whatever the call said
		if pemBytes, lerr := b.Handle("probe").Load(context.Background(), certmagic.StorageKeys.SiteCert(iss.IssuerKey(), name)); lerr == nil {
			obs.Stored = env.signerOf(pemBytes)
		}
		if obs.Stored >= 0 {
			if _, cerr := cfg.CacheManagedCertificate(context.Background(), name); cerr == nil {
				hello, done := doubles.Hello(name)
				if tc, gerr := cfg.GetCertificate(hello); gerr == nil && tc != nil && len(tc.Certificate) > 0 {
					if leaf, perr := x509.ParseCertificate(tc.Certificate[0]); perr == nil {
						obs.Served = -1
						for i, c := range env.cas {
							if leaf.CheckSignatureFrom(c.Signer.Cert) == nil {
								obs.Served = i
							}
						}
					}
				}
				done()
			}
		}
	}
	return obs
}

func c19E2EWire(p c19E2EPlan, o c19E2EObs) string {
	code := map[string]int{"ok": 0, "429": 1, "fail": 2}
	e := &emit.Enc{}
	e.Int(4)
	if p.Mode == "async" || p.Mode == "renew" {
		e.Int(1)
	} else {
		e.Int(0)
	}
	e.Str(o.CA).Str(o.TestCA).Str(o.ProdURL).Str(o.TestURL)
	e.Len(len(o.Atts))
	for _, a := range o.Atts {
		e.Int(a.No).Len(len(a.Orders))
		for _, od := range a.Orders {
			e.Str(od.Dir).Int(code[od.Outcome])
		}
		e.Int(a.Res).Int(a.From)
	}
	e.Int(o.Final).Int(o.Stored).Int(o.Served)
	return e.String()
}

func c19E2EPlans(tier string, r *rand.Rand) []c19E2EPlan {
	var ps []c19E2EPlan
	// ---- Issue called directly, attempts = 0..3, every outcome of the first and the second order
	for _, tc := range []string{"distinct", "same", "none"} {
		for _, att := range []int{0, 1, 2, 3} {
			for _, first := range []string{"ok", "fail", "429"} {
				if att == 0 || tc != "distinct" {
					ps = append(ps, c19E2EPlan{Mode: "issue", Attempts: att, TestCA: tc, Prod: []string{first}})
					continue
				}
				if first != "ok" {
					ps = append(ps, c19E2EPlan{Mode: "issue", Attempts: att, TestCA: tc, Test: []string{first}})
					continue
				}
				for _, second := range []string{"ok", "fail", "429"} {
					ps = append(ps, c19E2EPlan{Mode: "issue", Attempts: att, TestCA: tc, Test: []string{"ok"}, Prod: []string{second}})
				}
			}
		}
	}
	// ---- the asynchronous obtain: production fails first; then scripted
	outs := []string{"ok", "fail", "429"}
	async := []c19E2EPlan{
		{Mode: "async", TestCA: "distinct", Prod: []string{"ok"}},
		{Mode: "async", TestCA: "distinct", Prod: []string{"fail", "ok"}, Test: []string{"ok"}},
		{Mode: "async", TestCA: "distinct", Prod: []string{"fail", "fail"}, Test: []string{"ok"}},
		{Mode: "async", TestCA: "distinct", Prod: []string{"429", "429", "ok"}, Test: []string{"ok", "ok"}},
		{Mode: "async", TestCA: "distinct", Prod: []string{"fail", "ok"}, Test: []string{"fail", "429", "ok"}},
		{Mode: "async", TestCA: "distinct", Prod: []string{"fail", "429", "fail"}, Test: []string{"fail", "ok", "ok"}},
		{Mode: "async", TestCA: "same", Prod: []string{"fail", "429", "ok"}},
		{Mode: "async", TestCA: "none", Prod: []string{"fail", "fail", "ok"}},
	}
	ps = append(ps, async...)
	// ---- background renewal of a stored certificate of the same CA (ARI enabled): the attempt
	// counter must reach the issuers on renewals too, retries go to the test CA first
	renew := []c19E2EPlan{
		{Mode: "renew", TestCA: "distinct", Prod: []string{"fail", "ok"}, Test: []string{"ok"}},
		{Mode: "renew", TestCA: "distinct", Prod: []string{"429", "429", "ok"}, Test: []string{"ok", "fail", "ok"}},
		{Mode: "renew", TestCA: "distinct", Prod: []string{"fail", "ok"}, Test: []string{"fail", "429", "ok"}},
		{Mode: "renew", TestCA: "distinct", Prod: []string{"ok"}},
		{Mode: "renew", TestCA: "same", Prod: []string{"fail", "429", "ok"}},
		{Mode: "renew", TestCA: "none", Prod: []string{"fail", "ok"}},
	}
	ps = append(ps, renew...)
	if tier == "thorough" {
		for i := 0; i < 12; i++ {
			p := c19E2EPlan{Mode: "renew", TestCA: []string{"distinct", "distinct", "same", "none"}[r.Intn(4)], Prod: []string{[]string{"fail", "429"}[r.Intn(2)]}}
			for j := r.Intn(3); j > 0; j-- {
				p.Prod = append(p.Prod, []string{"ok", "429"}[r.Intn(2)]) // (a refusal after a test success would be ErrNoRetry, which the issuer loop replaces by the probe's error)
			}
			for j := r.Intn(4); j > 0; j-- {
				p.Test = append(p.Test, outs[r.Intn(3)])
			}
			ps = append(ps, p)
		}
	}
	n := 10
	if tier == "thorough" {
		n = 80
	}
	for i := 0; i < n; i++ {
		p := c19E2EPlan{Mode: "async", TestCA: []string{"distinct", "distinct", "distinct", "same", "none"}[r.Intn(5)]}
		p.Prod = []string{[]string{"fail", "429"}[r.Intn(2)]}
		for j := r.Intn(3); j > 0; j-- {
			p.Prod = append(p.Prod, outs[r.Intn(3)])
		}
		for j := r.Intn(4); j > 0; j-- {
			p.Test = append(p.Test, outs[r.Intn(3)])
		}
		ps = append(ps, p)
	}
	return ps
}

func c19E2EEmit(w *emit.Writer, p c19E2EPlan, o c19E2EObs) {
	pj, _ := json.Marshal(p)
	class := "e2e-" + p.Mode
	orders, testOK := 0, 0
	for _, a := range o.Atts {
		orders += len(a.Orders)
		for _, od := range a.Orders {
			if od.Dir == o.TestURL && od.Outcome == "ok" {
				testOK++
			}
		}
	}
	w.Hist("kind=" + class)
	w.Hist(fmt.Sprintf("e2e: mode=%s test_ca=%s", p.Mode, p.TestCA))
	w.Hist(fmt.Sprintf("e2e: attempts=%d orders=%d", len(o.Atts), orders))
	w.Hist(fmt.Sprintf("e2e: final=%s stored_signed_by=%s", map[int]string{0: "nil", 1: "error", 2: "noretry"}[o.Final],
		map[int]string{-1: "none", 0: "production", 1: "test"}[o.Stored]))
	w.Hist(fmt.Sprintf("e2e: test_ca_successes=%d", testOK))
	w.Add(emit.Case{Desc: map[string]any{"kind": class, "class": class, "test_ca": p.TestCA, "attempts": len(o.Atts), "orders": orders,
		"test_ca_successes": testOK},
		In: p, Obs: o, Wire: c19E2EWire(p, o), Nontrivial: p.TestCA == "distinct" && orders > 1, Key: string(pj)})
}

// c19E2E runs the plans (6 at a time; every case has its own account, storage and name) with the
// retry table shrunk to 20 ms.
func c19E2E(w *emit.Writer, plans []c19E2EPlan) {
	env := c1719NewEnv()
	defer env.close()
	restore := certmagic.VerifSetRetryIntervals([]time.Duration{20 * time.Millisecond})
	defer restore()
	res := make([]c19E2EObs, len(plans))
	sem := make(chan struct{}, 6)
	var wg sync.WaitGroup
	for i := range plans {
		wg.Add(1)
		sem <- struct{}{}
		go func(i int) {
			defer wg.Done()
			defer func() { <-sem }()
			res[i] = c19E2ERun(env, plans[i])
		}(i)
	}
	wg.Wait()
	for i := range plans {
		c19E2EEmit(w, plans[i], res[i])
	}
}
