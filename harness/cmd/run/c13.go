//go:build !skip_c13

package main

// C13 — concurrent handshakes share one load/obtain/renew and are never left hanging.
//
// Lock-step runs of 2-6 real Config.GetCertificate goroutines for the same name (and a second
// name for independence). Every goroutine is held at "gates": the DecisionFunc call, the first
// read of the name's certificate bundle, the Issuer.Issue call. The driver repeatedly picks one
// action (a new handshake arrives / a held goroutine is released with a chosen outcome / a
// waiting handshake's context is cancelled), then waits until every goroutine is provably
// blocked again — at a gate (inside the harness), in one of the three waiting selects of
// handshake.go (seen in the goroutine dump), or finished — and records where each goroutine is
// and which names the two wait maps hold (hook snapshot). No time-out is waited out.

import (
	"context"
	"crypto/tls"
	"crypto/x509"
	"encoding/json"
	"errors"
	"fmt"
	"io/fs"
	"math/rand"
	"os"
	"runtime"
	"sort"
	"strings"
	"sync"
	"time"

	"github.com/caddyserver/certmagic"
	"golang.org/x/crypto/ocsp"

	"verifharness/pkg/doubles"
	"verifharness/pkg/emit"
	"verifharness/pkg/hsutil"
)

func init() { register("C13", runC13) }

// ---------------------------------------------------------------- replayable description

type c13Action struct {
	Kind    string `json:"kind"`              // arrive | release | cancel
	T       int    `json:"t"`                 // thread id
	Name    int    `json:"name,omitempty"`    // arrive: name index
	Allow   *bool  `json:"allow,omitempty"`   // release at a decision gate
	Outcome string `json:"outcome,omitempty"` // release at an issue gate: ok | fail | cancel
	Mgr     bool   `json:"mgr,omitempty"`     // release at the external manager's gate (it answers nil, nil)
}

type c13Case struct {
	Scenario string      `json:"scenario"` // fresh | stored-valid | cached-due | cached-expired | cached-revoked | cached-due-nostore | stored-expired
	Threads  int         `json:"threads"`
	Seed     int64       `json:"seed"`              // drives the random schedule when Actions is empty
	Actions  []c13Action `json:"actions,omitempty"` // explicit schedule (corpus / replay)
	Mgr      bool        `json:"mgr,omitempty"`     // an external manager (OnDemand.Managers) is configured: slow, answers (nil, nil)
}

// ---------------------------------------------------------------- environment

type c13Gate struct {
	kind    string // decision | load | issue
	release chan c13Outcome
}
type c13Outcome struct {
	allow bool
	fail  bool
}

type c13Result struct {
	kind string // cert | empty | err
	gen  int
	err  string
}

type c13Thread struct {
	tid    int
	name   int
	gid    int64
	bg     bool
	cancel context.CancelFunc
	gate   *c13Gate   // non-nil while held
	result *c13Result // non-nil when the handshake returned
	exited bool       // background goroutine gone
	pos    string
}

type c13Env struct {
	b        *doubles.MemBackend
	ca       *doubles.CA
	iss      *doubles.IssuerDouble
	cfg      *certmagic.Config
	cache    *certmagic.Cache
	names    []string
	mu       sync.Mutex
	threads  []*c13Thread
	byGid    map[int64]*c13Thread
	active   bool // gating on
	scenario string
	subject0 string
	revokes  int
	evicts   int
	class0   int // class code of the initial certificate (generation 1)
}

func (e *c13Env) threadOfCaller() *c13Thread {
	gid := hsutil.ID()
	e.mu.Lock()
	th := e.byGid[gid]
	active := e.active
	e.mu.Unlock()
	if th != nil || !active {
		return th
	}
	// unknown goroutine: a background renewal spawned by certmagic?
	for _, g := range hsutil.Dump() {
		if g.ID == gid && g.SpawnedByCertmagicHandshake() {
			e.mu.Lock()
			th = &c13Thread{tid: len(e.threads), gid: gid, bg: true, name: -1}
			// it works on its parent's name
			if p := e.byGid[g.Parent]; p != nil {
				th.name = p.name
			}
			e.threads = append(e.threads, th)
			e.byGid[gid] = th
			e.mu.Unlock()
			return th
		}
	}
	return nil
}

// hold blocks the calling goroutine at a gate until the driver releases it.
func (e *c13Env) hold(th *c13Thread, kind string) c13Outcome {
	g := &c13Gate{kind: kind, release: make(chan c13Outcome, 1)}
	e.mu.Lock()
	th.gate = g
	e.mu.Unlock()
	out := <-g.release
	return out
}

func (e *c13Env) nameIndexOfKey(key string) (int, string) {
	parts := strings.Split(key, "/")
	if len(parts) != 4 || parts[0] != "certificates" {
		return -1, ""
	}
	for i, n := range e.names {
		if i == 0 {
			n = e.subject0
		}
		if parts[2] == certmagic.StorageKeys.Safe(n) {
			return i, strings.TrimPrefix(parts[3], parts[2])
		}
	}
	return -1, ""
}

func (e *c13Env) hook(op *doubles.Op) error {
	th := e.threadOfCaller()
	if th != nil {
		switch op.Kind {
		case "Load":
			if i, ext := e.nameIndexOfKey(op.Key); i >= 0 && ext == ".key" {
				e.hold(th, "load")
			}
		case "Exists":
			// the storage existence check of handshakeMaintenance's renewIfNecessary (not the ones inside
			// ObtainCertAsync / renewCert): a handshake held here has picked its certificate from the
			// cache already and enters the obtain-map section only when released
			if i, ext := e.nameIndexOfKey(op.Key); i >= 0 && ext == ".crt" && c13InMaintenanceExists() {
				e.hold(th, "exists")
			}
		case "IssueStart":
			if out := e.hold(th, "issue"); out.fail {
				return certmagic.ErrNoRetry{Err: errors.New("issuer double: refused")}
			}
		}
	}
	if op.Kind == "Load" && strings.HasPrefix(op.Key, "certificates/") {
		if _, ok := e.b.Get(op.Key); !ok {
			return certmagic.ErrNoRetry{Err: fs.ErrNotExist}
		}
	}
	return nil
}

// c13InMaintenanceExists: the caller of storageHasCertResourcesAnyIssuer is the renewIfNecessary
// closure of handshakeMaintenance.
func c13InMaintenanceExists() bool {
	pcs := make([]uintptr, 32)
	n := runtime.Callers(2, pcs)
	frames := runtime.CallersFrames(pcs[:n])
	seen := false
	for {
		f, more := frames.Next()
		if seen {
			return strings.Contains(f.Function, "certmagic.(*Config).handshakeMaintenance")
		}
		if strings.HasSuffix(f.Function, "certmagic.(*Config).storageHasCertResourcesAnyIssuer") {
			seen = true
		}
		if !more {
			return false
		}
	}
}

func (e *c13Env) decision(ctx context.Context, name string) error {
	th := e.threadOfCaller()
	if th == nil {
		return nil
	}
	if out := e.hold(th, "decision"); !out.allow {
		return errors.New("policy says no")
	}
	return nil
}

var c13Scenarios = []string{"fresh", "stored-valid", "cached-due", "cached-expired", "cached-revoked", "cached-due-nostore", "stored-expired", "cached-expired-nostore", "cached-revoked-wildcard"}

var c13Uniq int

// c13Manager is the external certificate manager double: every call is held at a gate of its own (the
// manager's latency, chosen by the driver) and then answers (nil, nil), so that the flow continues
// with the policy, storage and the issuer. certmagic asks the managers inside the load single-flight
// section: of N handshakes for an uncached name only the load worker may be in the manager at any time.
type c13Manager struct{ e *c13Env }

func (m c13Manager) GetCertificate(ctx context.Context, hello *tls.ClientHelloInfo) (*tls.Certificate, error) {
	if th := m.e.threadOfCaller(); th != nil {
		m.e.hold(th, "manager")
	}
	return nil, nil
}

func c13NewEnv(scenario string, mgr bool) (*c13Env, error) {
	c13Uniq++
	e := &c13Env{b: doubles.NewMemBackend(), ca: doubles.NewCA("harness CA"), byGid: map[int64]*c13Thread{}, scenario: scenario}
	e.names = []string{fmt.Sprintf("n0.u%d.c13.example", c13Uniq), fmt.Sprintf("n1-%d.c13other.example", c13Uniq)}
	// the subject (= bundle key) of the certificate for name 0: the name itself, or a wildcard that
	// covers it (scenario cached-revoked-wildcard: Names[0] differs from every SNI)
	e.subject0 = e.names[0]
	if scenario == "cached-revoked-wildcard" {
		e.subject0 = fmt.Sprintf("*.u%d.c13.example", c13Uniq)
	}
	e.iss = &doubles.IssuerDouble{Key: c02IssuerKey, CA: e.ca, Log: e.b.Log, Inst: "i1"}
	tmpl := certmagic.Config{OCSP: certmagic.OCSPConfig{DisableStapling: true},
		OnDemand: &certmagic.OnDemandConfig{DecisionFunc: e.decision}}
	if mgr {
		tmpl.OnDemand.Managers = []certmagic.Manager{c13Manager{e}}
	}
	e.cfg, e.cache = doubles.NewConfig(e.b.Handle("i1"), tmpl, certmagic.CacheOptions{}, e.iss)
	if scenario != "fresh" {
		class := map[string]string{"stored-valid": "valid", "cached-due": "due", "cached-expired": "expired",
			"cached-revoked": "valid", "cached-due-nostore": "due", "stored-expired": "expired", "cached-expired-nostore": "expired",
			"cached-revoked-wildcard": "valid"}[scenario]
		e.class0 = map[string]int{"valid": 0, "due": 1, "expired": 2}[class]
		nb, na := c02Validity(class)
		chain, _, key, err := e.ca.Leaf(doubles.LeafOpts{Names: []string{e.subject0}, NotBefore: nb, NotAfter: na})
		if err != nil {
			return nil, err
		}
		k := certmagic.StorageKeys
		n := e.subject0
		e.b.Put(k.SiteCert(c02IssuerKey, n), chain)
		e.b.Put(k.SitePrivateKey(c02IssuerKey, n), key)
		e.b.Put(k.SiteMeta(c02IssuerKey, n), c02Meta([]string{n}, nil))
		if strings.HasPrefix(scenario, "cached") {
			cc, err := e.cfg.CacheManagedCertificate(context.Background(), n)
			if err != nil {
				return nil, err
			}
			if scenario == "cached-revoked" || scenario == "cached-revoked-wildcard" {
				certmagic.VerifSetOCSPStatus(e.cfg, cc.Hash(), ocsp.Revoked, ocsp.Unspecified)
			}
			if scenario == "cached-due-nostore" || scenario == "cached-expired-nostore" {
				e.b.Remove(k.SiteCert(c02IssuerKey, n))
				e.b.Remove(k.SitePrivateKey(c02IssuerKey, n))
				e.b.Remove(k.SiteMeta(c02IssuerKey, n))
			}
		}
	}
	e.b.Log.Hook = e.hook
	e.mu.Lock()
	e.active = true
	e.mu.Unlock()
	return e, nil
}

// newestCert0: generation and hash of the newest cached certificate whose subject is subject0.
// c13CacheSnapshot reads the cache through the hook, but gives up after half a second: the cache lock
// may be held by a goroutine that sits at one of our gates (then there is nothing to see: nil).
func (e *c13Env) c13CacheSnapshot() []certmagic.VerifCachedCert {
	ch := make(chan []certmagic.VerifCachedCert, 1)
	go func() {
		certs, _ := certmagic.VerifCacheSnapshot(e.cfg)
		ch <- certs
	}()
	select {
	case certs := <-ch:
		return certs
	case <-time.After(500 * time.Millisecond):
		return nil
	}
}

func (e *c13Env) newestCert0() (int, string) {
	certs := e.c13CacheSnapshot()
	gen, hash := 0, ""
	for _, c := range certs {
		if len(c.Names) > 0 && c.Names[0] == e.subject0 {
			if g := c02IDOfSerial(c.Serial); g > gen {
				gen, hash = g, c.Hash
			}
		}
	}
	return gen, hash
}

// certHash0: hash of the cached certificate of the given generation whose subject is subject0 ("" if none).
func (e *c13Env) certHash0(gen int) string {
	certs := e.c13CacheSnapshot()
	for _, c := range certs {
		if len(c.Names) > 0 && c.Names[0] == e.subject0 && c02IDOfSerial(c.Serial) == gen {
			return c.Hash
		}
	}
	return ""
}

// workerAtIssuer0: some goroutine for name 0 is held at the issuer.
func (e *c13Env) workerAtIssuer0() bool {
	e.mu.Lock()
	defer e.mu.Unlock()
	for _, th := range e.threads {
		if th.name == 0 && th.gate != nil && th.gate.kind == "issue" {
			return true
		}
	}
	return false
}

// allAtRest0: every goroutine for name 0 has returned / exited.
func (e *c13Env) allAtRest0() bool {
	e.mu.Lock()
	defer e.mu.Unlock()
	for _, th := range e.threads {
		if th.name == 0 && th.result == nil && !th.exited {
			return false
		}
	}
	return true
}

func (e *c13Env) arrive(tid, name int) {
	th := &c13Thread{tid: tid, name: name}
	ctx, cancel := context.WithCancel(context.Background())
	th.cancel = cancel
	started := make(chan struct{})
	e.mu.Lock()
	if tid != len(e.threads) {
		panic("thread ids must be consecutive")
	}
	e.threads = append(e.threads, th)
	e.mu.Unlock()
	go func() {
		gid := hsutil.ID()
		e.mu.Lock()
		th.gid = gid
		e.byGid[gid] = th
		e.mu.Unlock()
		close(started)
		// the same name in different spellings: the wait maps must be keyed by the normalised name
		sni := e.names[name]
		switch tid % 3 {
		case 1:
			sni = strings.ToUpper(sni)
		case 2:
			if e.scenario == "cached-expired-nostore" {
				// here an expired and a new certificate are cached for the name at the same time: an
				// SNI that no certificate "supports" (VerifyHostname fails on the blanks) makes
				// DefaultCertificateSelector fall back to the first choice, expired or not (C03's
				// subject): only spellings a TLS client can send
				sni = strings.ToUpper(sni[:1]) + sni[1:]
			} else {
				sni = "  " + sni + " "
			}
		}
		hello, closeHello := doubles.Hello(sni)
		defer closeHello()
		cert, err := e.cfg.GetCertificateWithContext(ctx, hello)
		// as crypto/tls does: the per-handshake context is cancelled as soon as the handshake is over
		// (whatever the handshake started in the background must not depend on it)
		cancel()
		r := &c13Result{}
		switch {
		case err != nil:
			r.kind, r.err = "err", err.Error()
		case cert == nil || len(cert.Certificate) == 0 || cert.PrivateKey == nil: // incomplete: no chain or no private key
			r.kind = "empty"
		default:
			leaf := cert.Leaf
			if leaf == nil {
				leaf, _ = x509.ParseCertificate(cert.Certificate[0])
			}
			r.kind, r.gen = "cert", c02IDOfSerial(leaf.SerialNumber.String())
		}
		e.mu.Lock()
		th.result = r
		e.mu.Unlock()
	}()
	<-started
}

var c13WaitFuncs = map[string]string{
	"github.com/caddyserver/certmagic.(*Config).getCertDuringHandshake":    "wait-load",
	"github.com/caddyserver/certmagic.(*Config).obtainOnDemandCertificate": "wait-obtain",
	"github.com/caddyserver/certmagic.(*Config).renewDynamicCertificate":   "wait-renew",
}

// c13ErrUnsettled: some goroutine never came to rest (it spins or is blocked somewhere else); the
// positions are recorded with "running" for such goroutines, the case and the run end there.
var c13ErrUnsettled = errors.New("goroutines did not come to rest")

// settle waits until every goroutine is provably blocked (gate / waiting select / finished) and
// fills in th.pos. If that does not happen within the deadline the goroutines that are not at rest
// get the position "running" and c13ErrUnsettled is returned.
func (e *c13Env) settle() error {
	deadline := time.Now().Add(10 * time.Second)
	lockSince := map[int64]time.Time{} // goroutines seen blocked on a mutex: since when
	blocked := false
	for {
		blocked = false
		// first what the goroutines have reported themselves (at a gate / returned), THEN the dump:
		// a goroutine that reported is blocked or finished for good, the others are judged by a
		// stop-the-world snapshot taken afterwards, so the combination is a consistent state
		type flags struct {
			th     *c13Thread
			result *c13Result
			exited bool
			gate   *c13Gate
		}
		e.mu.Lock()
		var fl []flags
		known := map[int64]bool{}
		for _, th := range e.threads {
			fl = append(fl, flags{th, th.result, th.exited, th.gate})
			known[th.gid] = true
		}
		e.mu.Unlock()
		dump := hsutil.Dump()
		byID := map[int64]*hsutil.G{}
		for i := range dump {
			byID[dump[i].ID] = &dump[i]
		}
		ok := true
		why := ""
		pos := make([]string, len(fl))
		exitedNow := make([]bool, len(fl))
		for i, f := range fl {
			th := f.th
			switch {
			case f.result != nil:
				switch f.result.kind {
				case "cert":
					pos[i] = fmt.Sprintf("done-cert:%d", f.result.gen)
				case "empty":
					pos[i] = "done-empty"
				default:
					pos[i] = "done-err"
				}
			case f.exited:
				pos[i] = "exited"
			case f.gate != nil:
				pos[i] = "at-" + f.gate.kind
			default:
				g := byID[th.gid]
				if g == nil {
					if th.bg {
						exitedNow[i] = true
						pos[i] = "exited"
					} else {
						ok, why = false, fmt.Sprintf("thread %d: goroutine gone but no result yet", th.tid)
					}
					break
				}
				top := ""
				for _, f := range g.Funcs {
					if !strings.HasPrefix(f, "runtime.") {
						top = f
						break
					}
				}
				if w, isWait := c13WaitFuncs[top]; isWait && g.State == "select" {
					pos[i] = w
				} else if g.State == "select" && strings.HasSuffix(top, "doubles.(*MemStorage).Lock") {
					// blocked on the certificate lock in storage: a second worker for the same name
					pos[i] = "blocked-lock"
				} else if strings.HasPrefix(g.State, "sync.") || g.State == "semacquire" {
					// blocked on a mutex inside certmagic (e.g. the certificate cache's lock held by a
					// worker that sits at one of our storage gates): if it stays so for more than a
					// second it is recorded as a position of its own — it is not one of the three waiting
					// selects, so the specification fails on it — and the case ends
					if t0, seen := lockSince[th.gid]; !seen {
						lockSince[th.gid] = time.Now()
						ok, why = false, fmt.Sprintf("thread %d: state %q in %s", th.tid, g.State, top)
					} else if time.Since(t0) < 1200*time.Millisecond {
						ok, why = false, fmt.Sprintf("thread %d: state %q in %s", th.tid, g.State, top)
					} else {
						pos[i] = "blocked-on-cache-lock"
						blocked = true
					}
				} else {
					delete(lockSince, th.gid)
					ok, why = false, fmt.Sprintf("thread %d: state %q in %s", th.tid, g.State, top)
				}
			}
		}
		if ok {
			e.mu.Lock()
			if len(e.threads) != len(fl) {
				ok, why = false, "a goroutine registered meanwhile"
			} else {
				for i, f := range fl {
					f.th.pos = pos[i]
					if exitedNow[i] {
						f.th.exited = true
					}
				}
			}
			e.mu.Unlock()
		}
		// goroutines spawned by certmagic that have not reached a gate yet
		for _, g := range dump {
			if g.SpawnedByCertmagicHandshake() && !known[g.ID] {
				ok, why = false, fmt.Sprintf("unregistered background goroutine %d", g.ID)
			}
		}
		if ok && blocked {
			fmt.Fprintf(os.Stderr, "C13: a handshake goroutine is blocked on a mutex inside certmagic while the others are at rest\n")
			return c13ErrUnsettled
		}
		if ok {
			return nil
		}
		if time.Now().After(deadline) {
			e.mu.Lock()
			for i, f := range fl {
				if pos[i] == "" {
					pos[i] = "running"
				}
				f.th.pos = pos[i]
			}
			// goroutines that registered after the flags were read
			for _, th := range e.threads[len(fl):] {
				th.pos = "running"
			}
			e.mu.Unlock()
			fmt.Fprintf(os.Stderr, "C13: goroutines did not come to rest within 10s: %s\n", why)
			return c13ErrUnsettled
		}
		time.Sleep(150 * time.Microsecond)
	}
}

func (e *c13Env) shutdown() {
	e.mu.Lock()
	e.active = false
	ths := append([]*c13Thread(nil), e.threads...)
	e.mu.Unlock()
	for round := 0; round < 50; round++ {
		busy := false
		e.mu.Lock()
		for _, th := range ths {
			if th.cancel != nil {
				th.cancel()
			}
			if th.gate != nil {
				g := th.gate
				th.gate = nil
				g.release <- c13Outcome{allow: false, fail: true}
				busy = true
			}
			if th.result == nil && !th.bg {
				busy = true
			}
		}
		e.mu.Unlock()
		if !busy {
			break
		}
		time.Sleep(2 * time.Millisecond)
	}
	e.cache.Stop()
}

// ---------------------------------------------------------------- one case

var c13PosCode = map[string]int{"at-decision": 0, "at-load": 1, "at-issue": 2, "wait-load": 3, "wait-obtain": 4, "wait-renew": 5,
	"done-empty": 7, "done-err": 8, "exited": 9, "blocked-lock": 10, "running": 10, "blocked-on-cache-lock": 10, "at-exists": 11}

type c13Seen struct {
	Action c13Action `json:"action"`
	Pos    []string  `json:"pos"`
	LMap   []int     `json:"lmap"`
	OMap   []int     `json:"omap"`
}

func (e *c13Env) observe(enc *emit.Enc, act c13Action, nBefore int) (c13Seen, error) {
	settleErr := e.settle()
	if settleErr != nil && settleErr != c13ErrUnsettled {
		return c13Seen{}, settleErr
	}
	e.mu.Lock()
	defer e.mu.Unlock()
	seen := c13Seen{Action: act}
	// label
	switch act.Kind {
	case "arrive":
		enc.Int(0).Int(act.T).Int(act.Name)
	case "release":
		if act.Mgr {
			// the manager answered (nil, nil): for the LTS, which has no manager, nothing happens — the
			// goroutine is and stays "before its policy gate" (a no-op label: MSetCert of a certificate
			// generation that does not exist)
			enc.Int(2).Int(0).Int(9999).Int(0).Bool(false)
			break
		}
		enc.Int(1).Int(act.T)
		switch {
		case act.Allow != nil:
			enc.Int(1).Bool(*act.Allow)
		case act.Outcome != "":
			enc.Int(2).Int(map[string]int{"ok": 0, "fail": 1, "cancel": 2}[act.Outcome])
		default:
			enc.Int(3)
		}
	case "cancel":
		enc.Int(1).Int(act.T).Int(4)
	case "evict":
		// MEvictCert name 0, certificate (generation, class, revoked): removal is by generation
		enc.Int(3).Int(0).Int(act.T).Int(e.class0).Bool(false)
	case "revoke":
		// MSetCert name 0, certificate (generation, class, revoked)
		cls := 0
		if act.T == 1 {
			cls = e.class0
		}
		enc.Int(2).Int(0).Int(act.T).Int(cls).Bool(true)
	}
	// id for a goroutine spawned during this macro step, and the order hint
	spawn := len(e.threads)
	if len(e.threads) > nBefore && e.threads[len(e.threads)-1].bg {
		spawn = e.threads[len(e.threads)-1].tid
	}
	enc.Int(spawn)
	// order hint for the model's replay of concurrent wake-ups: the goroutine acted upon first,
	// then those that are not waiting now (they won whatever race there was), then the waiters
	var first, second []int
	if act.Kind != "arrive" && act.Kind != "revoke" && act.Kind != "evict" {
		first = append(first, act.T)
	}
	for _, th := range e.threads {
		if act.Kind != "arrive" && act.Kind != "revoke" && act.Kind != "evict" && th.tid == act.T {
			continue
		}
		if strings.HasPrefix(th.pos, "wait-") {
			second = append(second, th.tid)
		} else {
			first = append(first, th.tid)
		}
	}
	order := append(first, second...)
	enc.Len(len(order))
	for _, t := range order {
		enc.Int(t)
	}
	// positions
	enc.Len(len(e.threads))
	for _, th := range e.threads {
		enc.Int(th.tid).Int(th.name)
		if strings.HasPrefix(th.pos, "done-cert:") {
			var g int
			fmt.Sscanf(th.pos, "done-cert:%d", &g)
			enc.Int(6).Int(g)
		} else if th.pos == "at-manager" {
			// held inside Manager.GetCertificate: for the LTS the load worker before its policy gate
			// (code 0); two goroutines for one name there at the same time: the single-flight section
			// does not cover the manager call (code 10: not a position of the model, the specification fails)
			n := 0
			for _, o := range e.threads {
				if o.name == th.name && o.pos == "at-manager" {
					n++
				}
			}
			if n > 1 {
				enc.Int(10)
				seen.Pos = append(seen.Pos, "overlapping-manager-call")
				continue
			}
			enc.Int(0)
		} else {
			enc.Int(c13PosCode[th.pos])
		}
		seen.Pos = append(seen.Pos, th.pos)
	}
	load, obtain := certmagic.VerifWaitChans()
	idx := func(l []string) []int {
		var out []int
		for _, s := range l {
			for i, n := range e.names {
				if s == n {
					out = append(out, i)
				}
			}
		}
		sort.Ints(out)
		return out
	}
	seen.LMap, seen.OMap = idx(load), idx(obtain)
	enc.Len(len(seen.LMap))
	for _, i := range seen.LMap {
		enc.Int(i)
	}
	enc.Len(len(seen.OMap))
	for _, i := range seen.OMap {
		enc.Int(i)
	}
	return seen, settleErr
}

func c13RunCase(w *emit.Writer, cs *c13Case, desc map[string]any) error {
	env, err := c13NewEnv(cs.Scenario, cs.Mgr)
	if err != nil {
		return err
	}
	defer env.shutdown()
	rr := rand.New(rand.NewSource(cs.Seed))
	var seenAll []c13Seen
	var taken []c13Action
	steps := &emit.Enc{}
	nSteps := 0
	started := 0
	unsettled := false
	perform := func(act c13Action) error {
		env.mu.Lock()
		nBefore := len(env.threads)
		var th *c13Thread
		if act.Kind != "arrive" && act.Kind != "revoke" && act.Kind != "evict" {
			if act.T < 0 || act.T >= len(env.threads) {
				env.mu.Unlock()
				return fmt.Errorf("no thread %d", act.T)
			}
			th = env.threads[act.T]
		}
		env.mu.Unlock()
		switch act.Kind {
		case "arrive":
			env.arrive(act.T, act.Name)
			started++
		case "release":
			env.mu.Lock()
			g := th.gate
			th.gate = nil
			env.mu.Unlock()
			if g == nil {
				return fmt.Errorf("thread %d is not at a gate", act.T)
			}
			out := c13Outcome{allow: true}
			if act.Allow != nil {
				out.allow = *act.Allow
			}
			switch act.Outcome {
			case "fail":
				out.fail = true
			case "cancel":
				if th.cancel == nil {
					return fmt.Errorf("thread %d has no cancellable context", act.T)
				}
				th.cancel()
			}
			g.release <- out
		case "cancel":
			th.cancel()
		case "evict":
			// Cache.Remove of the cached certificate of generation act.T for name 0 (what a capacity
			// eviction caused by another name's certificate, or RemoveManaged, does)
			hash := env.certHash0(act.T)
			if hash == "" {
				return fmt.Errorf("evict: no cached certificate of generation %d for name 0", act.T)
			}
			env.cache.Remove([]string{hash})
			env.evicts++
		case "revoke":
			// the newest cached certificate for name 0 gets the OCSP status Revoked (act.T = its generation)
			gen, hash := env.newestCert0()
			if gen != act.T {
				return fmt.Errorf("revoke: newest cached certificate for name 0 is generation %d, not %d", gen, act.T)
			}
			certmagic.VerifSetOCSPStatus(env.cfg, hash, ocsp.Revoked, ocsp.Unspecified)
			env.revokes++
		}
		s, err := env.observe(steps, act, nBefore)
		if err != nil && err != c13ErrUnsettled {
			return err
		}
		unsettled = err == c13ErrUnsettled
		seenAll = append(seenAll, s)
		taken = append(taken, act)
		nSteps++
		for _, p := range s.Pos {
			w.Hist("pos=" + strings.SplitN(p, ":", 2)[0])
		}
		w.Hist("action=" + act.Kind)
		return nil
	}
	complete := false
	// an explicit schedule (corpus witness / replay) is followed as far as it applies to what the
	// implementation does; the run then continues with the seeded random driver until nothing is left
	for _, a := range cs.Actions {
		env.mu.Lock()
		applicable := false
		switch a.Kind {
		case "arrive":
			applicable = a.T == len(env.threads)
		case "release":
			if a.T < len(env.threads) && env.threads[a.T].gate != nil {
				k := env.threads[a.T].gate.kind
				applicable = (k == "decision") == (a.Allow != nil) && (k == "issue") == (a.Outcome != "") && (k == "manager") == a.Mgr
			}
		case "cancel":
			applicable = a.T < len(env.threads) && env.threads[a.T].pos == "wait-load"
		case "revoke":
			g, _ := env.newestCert0()
			applicable = g == a.T
		case "evict":
			applicable = env.certHash0(a.T) != ""
		}
		env.mu.Unlock()
		if !applicable || unsettled {
			break
		}
		if a.Kind == "arrive" && started >= cs.Threads {
			cs.Threads = started + 1
		}
		if err := perform(a); err != nil {
			return err
		}
	}
	{
		yes, no := true, false
		for nSteps < 120 && !unsettled {
			// enumerate the possible actions
			var acts []c13Action
			env.mu.Lock()
			for _, th := range env.threads {
				if th.gate != nil {
					switch th.gate.kind {
					case "decision":
						acts = append(acts, c13Action{Kind: "release", T: th.tid, Allow: &yes}, c13Action{Kind: "release", T: th.tid, Allow: &yes},
							c13Action{Kind: "release", T: th.tid, Allow: &yes}, c13Action{Kind: "release", T: th.tid, Allow: &no})
					case "load", "exists":
						acts = append(acts, c13Action{Kind: "release", T: th.tid}, c13Action{Kind: "release", T: th.tid})
					case "manager":
						acts = append(acts, c13Action{Kind: "release", T: th.tid, Mgr: true})
					case "issue":
						acts = append(acts, c13Action{Kind: "release", T: th.tid, Outcome: "ok"}, c13Action{Kind: "release", T: th.tid, Outcome: "ok"},
							c13Action{Kind: "release", T: th.tid, Outcome: "fail"})
						if !th.bg {
							acts = append(acts, c13Action{Kind: "release", T: th.tid, Outcome: "cancel"})
						}
					}
				} else if th.pos == "wait-load" && rr.Intn(12) == 0 {
					acts = append(acts, c13Action{Kind: "cancel", T: th.tid})
				}
			}
			nThreads := len(env.threads)
			env.mu.Unlock()
			// interference: the certificate under renewal (generation 1) leaves the cache while the worker
			// is at the issuer
			if strings.HasPrefix(cs.Scenario, "cached") && env.evicts < 1 && env.workerAtIssuer0() && env.certHash0(1) != "" {
				for i := 0; i < 2; i++ {
					acts = append(acts, c13Action{Kind: "evict", T: 1})
				}
			}
			// second phase of the revoked scenarios: once a replacement is cached (and nobody is in
			// flight for the name) it is revoked in turn, so that later handshakes must renew again
			if strings.HasPrefix(cs.Scenario, "cached-revoked") && env.revokes < 2 && started < cs.Threads {
				if g, _ := env.newestCert0(); g >= 2 && env.allAtRest0() {
					for i := 0; i < 4; i++ {
						acts = append(acts, c13Action{Kind: "revoke", T: g})
					}
				}
			}
			if started < cs.Threads {
				name := 0
				if rr.Intn(6) == 0 {
					name = 1
				}
				// arrivals are likelier than any single release so that handshakes overlap
				for i := 0; i < 3; i++ {
					acts = append(acts, c13Action{Kind: "arrive", T: nThreads, Name: name})
				}
			}
			if len(acts) == 0 {
				break
			}
			if err := perform(acts[rr.Intn(len(acts))]); err != nil {
				return err
			}
		}
	}
	env.mu.Lock()
	complete = true
	for _, th := range env.threads {
		if th.result == nil && !th.exited {
			complete = false
		}
	}
	nThreads := len(env.threads)
	env.mu.Unlock()
	// header: scenario flags, names, complete, initial cache / store, fresh
	enc := &emit.Enc{}
	enc.Bool(cs.Scenario == "cached-due").Bool(cs.Scenario == "cached-expired" || cs.Scenario == "cached-expired-nostore").Int(1)
	enc.Len(2).Int(0).Int(1)
	enc.Bool(complete)
	clsCode := map[string]int{"valid": 0, "due": 1, "expired": 2}
	class := map[string]string{"stored-valid": "valid", "cached-due": "due", "cached-expired": "expired",
		"cached-revoked": "valid", "cached-due-nostore": "due", "stored-expired": "expired", "cached-expired-nostore": "expired",
		"cached-revoked-wildcard": "valid"}[cs.Scenario]
	if strings.HasPrefix(cs.Scenario, "cached") {
		enc.Len(1).Int(0).Len(1).Int(1).Int(clsCode[class]).Bool(strings.HasPrefix(cs.Scenario, "cached-revoked"))
	} else {
		enc.Len(0)
	}
	if cs.Scenario != "fresh" && cs.Scenario != "cached-due-nostore" && cs.Scenario != "cached-expired-nostore" {
		enc.Len(1).Int(0).Int(1).Int(clsCode[class]).Bool(false)
	} else {
		enc.Len(0)
	}
	if cs.Scenario == "fresh" {
		enc.Int(1)
	} else {
		enc.Int(2)
	}
	enc.Len(nSteps)
	wire := enc.String()
	if nSteps > 0 {
		wire += " " + steps.String()
	}
	full := *cs
	full.Actions = taken
	desc["threads"] = nThreads
	desc["complete"] = complete
	w.Hist(fmt.Sprintf("threads=%d", nThreads))
	w.Hist(fmt.Sprintf("complete=%v", complete))
	w.Hist("scenario=" + cs.Scenario)
	kb, _ := json.Marshal(taken)
	w.Add(emit.Case{Desc: desc, In: full, Obs: seenAll, Wire: wire, Nontrivial: nThreads >= 2, Key: cs.Scenario + string(kb)})
	if unsettled {
		w.Hist("unsettled=true")
		return c13ErrUnsettled
	}
	return nil
}

func runC13(tier string, seed int64, outdir string, replay string) error {
	err := c13Run(tier, seed, outdir, replay)
	if errors.Is(err, c13ErrUnsettled) {
		return nil // recorded as a case whose observation fails the specification; nothing can run after it
	}
	return err
}

func c13Run(tier string, seed int64, outdir string, replay string) error {
	// a case in which some goroutine did not come to rest (it spins, or is blocked on a lock) is recorded
	// and the run goes on; after three of them it stops (each costs a second or more)
	hangs := 0
	c13RunCase := func(w *emit.Writer, cs *c13Case, desc map[string]any) error {
		err := c13RunCase(w, cs, desc)
		if errors.Is(err, c13ErrUnsettled) && replay == "" {
			hangs++
			if hangs < 3 {
				return nil
			}
		}
		return err
	}
	w := emit.NewWriter(outdir, "C13", tier, seed)
	defer w.Close()
	w.Meta.Rule = "distinct (scenario, schedule) pairs with at least two goroutines"
	w.Meta.Oracles = []emit.OracleCheck{}
	if replay != "" {
		rc, err := loadReplay(replay)
		if err != nil {
			return err
		}
		var cs c13Case
		if err := json.Unmarshal(rc.In, &cs); err != nil {
			return err
		}
		return c13RunCase(w, &cs, rc.Desc)
	}
	// ---- corpus: the witness of the fixed finding C13-load-owner-self-wait (and variants) ----
	yes, no := true, false
	witness := []c13Action{{Kind: "arrive", T: 0}, {Kind: "arrive", T: 1}, {Kind: "release", T: 0}, {Kind: "release", T: 1}, {Kind: "release", T: 0, Allow: &no},
		{Kind: "arrive", T: 2}, {Kind: "release", T: 1, Allow: &yes}, {Kind: "release", T: 2, Allow: &yes},
		{Kind: "release", T: 2}, {Kind: "arrive", T: 3}, {Kind: "release", T: 1, Outcome: "fail"}}
	for i, out := range []string{"fail", "cancel"} {
		acts := append([]c13Action(nil), witness...)
		acts[len(acts)-1].Outcome = out
		cs := &c13Case{Scenario: "cached-due-nostore", Threads: 4, Seed: int64(100 + i), Actions: acts}
		if err := c13RunCase(w, cs, map[string]any{"class": "load-owner-self-wait", "scenario": cs.Scenario, "outcome": out}); err != nil {
			return err
		}
	}
	// ---- corpus: the witnesses of the fixed finding C13-maintenance-failure-obtain ----
	// an expired certificate in storage only: handshake 0 loads it and becomes the (foreground) renewal
	// worker, handshake 1 hits the cached expired certificate and waits for that renewal; the renewal
	// is denied / the issuer fails / is cancelled. Before the fix handshake 0 went on to
	// obtainOnDemandCertificate (ObtainCertAsync is a no-op, the bundle exists), loaded the expired
	// certificate again and waited on the obtain channel it had registered itself, with handshake 1
	// queued behind it on the load channel, until the 2-minute time-outs.
	for i, end := range [][]c13Action{
		{{Kind: "release", T: 0, Allow: &no}},
		{{Kind: "release", T: 0, Allow: &yes}, {Kind: "release", T: 0}, {Kind: "release", T: 0, Outcome: "fail"}},
		{{Kind: "release", T: 0, Allow: &yes}, {Kind: "release", T: 0}, {Kind: "release", T: 0, Outcome: "cancel"}},
	} {
		acts := []c13Action{{Kind: "arrive", T: 0}, {Kind: "release", T: 0, Allow: &yes}, {Kind: "release", T: 0}, {Kind: "release", T: 0},
			{Kind: "arrive", T: 1}, {Kind: "release", T: 1}}
		acts = append(acts, end...)
		cs := &c13Case{Scenario: "stored-expired", Threads: 3, Seed: int64(200 + i), Actions: acts}
		if err := c13RunCase(w, cs, map[string]any{"class": "maintenance-failure-obtain", "scenario": cs.Scenario, "variant": i}); err != nil {
			return err
		}
	}
	// ---- corpus: waiters of a SUCCESSFUL obtain get the new certificate, not the cached expired one ----
	// cached expired certificate whose bundle is gone: handshake 0 becomes the obtain worker (storage-
	// missing branch), handshakes 1 and 2 pass the policy gate and wait for it; the issuer succeeds; the
	// worker is then held at its read of the new bundle (loadCertFromStorage) BEFORE it may release: at
	// that rest point the waiters must still be waiting, afterwards they must have the new certificate.
	{
		acts := []c13Action{{Kind: "arrive", T: 0}, {Kind: "release", T: 0}, {Kind: "release", T: 0, Allow: &yes},
			{Kind: "arrive", T: 1}, {Kind: "release", T: 1}, {Kind: "release", T: 1, Allow: &yes},
			{Kind: "arrive", T: 2}, {Kind: "release", T: 2}, {Kind: "release", T: 2, Allow: &yes}, {Kind: "release", T: 0, Outcome: "ok"}, {Kind: "release", T: 0}}
		cs := &c13Case{Scenario: "cached-expired-nostore", Threads: 3, Seed: 400, Actions: acts}
		if err := c13RunCase(w, cs, map[string]any{"class": "waiters-of-successful-obtain", "scenario": cs.Scenario}); err != nil {
			return err
		}
	}
	// ---- corpus: a swarm of handshakes for an uncached name with a slow external manager: only the load
	// worker is inside Manager.GetCertificate, the others wait for it on the load channel ----
	for i, sc := range []string{"fresh", "stored-valid"} {
		acts := []c13Action{{Kind: "arrive", T: 0}, {Kind: "arrive", T: 1}, {Kind: "arrive", T: 2}, {Kind: "arrive", T: 3},
			{Kind: "release", T: 0, Mgr: true}, {Kind: "release", T: 0, Allow: &yes}}
		cs := &c13Case{Scenario: sc, Threads: 5, Seed: int64(800 + i), Actions: acts, Mgr: true}
		if err := c13RunCase(w, cs, map[string]any{"class": "manager-swarm", "scenario": cs.Scenario}); err != nil {
			return err
		}
	}
	// ---- corpus: the waiters of a successful renewal find its result although the old certificate left
	// the cache meanwhile ----
	// cached expired certificate: handshake 0 is the (foreground) renewal worker, handshake 1 waits; while
	// the worker is at the issuer the old certificate is removed from the cache (Cache.Remove: capacity
	// eviction / RemoveManaged); the issuer delivers, the worker reloads: reloadManagedCertificate must put
	// the new certificate into the cache also when there is nothing left to replace, so that the waiter,
	// which re-enters with loading disabled, is answered with it.
	for i, sc := range []string{"cached-expired", "cached-revoked"} {
		var acts []c13Action
		if sc == "cached-expired" {
			acts = []c13Action{{Kind: "arrive", T: 0}, {Kind: "release", T: 0}, {Kind: "arrive", T: 1}, {Kind: "release", T: 1},
				{Kind: "release", T: 0, Allow: &yes}, {Kind: "release", T: 0}, {Kind: "evict", T: 1}, {Kind: "release", T: 0, Outcome: "ok"}, {Kind: "release", T: 0}}
		} else {
			acts = []c13Action{{Kind: "arrive", T: 0}, {Kind: "arrive", T: 2}, {Kind: "release", T: 1, Allow: &yes}, {Kind: "release", T: 1},
				{Kind: "evict", T: 1}, {Kind: "release", T: 1, Outcome: "ok"}, {Kind: "release", T: 1}}
		}
		cs := &c13Case{Scenario: sc, Threads: 3, Seed: int64(700 + i), Actions: acts}
		if err := c13RunCase(w, cs, map[string]any{"class": "old-certificate-evicted-during-renewal", "scenario": cs.Scenario}); err != nil {
			return err
		}
	}
	// ---- corpus: the issuer is asked once per renewal ----
	// cached due certificate: handshakes 0 and 1 both pick it from the cache and are held at the storage
	// existence check of their maintenance; 0 goes on, starts the background renewal (goroutine 2), which
	// completes (issuer ok, reload, release); only then 1 goes on with the OLD certificate still in hand:
	// it finds the obtain map free and becomes a second worker (goroutine 3), whose renewCert finds the
	// bundle in storage no longer due (force = false) and reloads: no second Issue.
	{
		acts := []c13Action{{Kind: "arrive", T: 0}, {Kind: "arrive", T: 1}, {Kind: "release", T: 0},
			{Kind: "release", T: 2, Allow: &yes}, {Kind: "release", T: 2}, {Kind: "release", T: 2, Outcome: "ok"}, {Kind: "release", T: 2},
			{Kind: "release", T: 1}, {Kind: "release", T: 3, Allow: &yes}, {Kind: "release", T: 3}, {Kind: "release", T: 3}}
		cs := &c13Case{Scenario: "cached-due", Threads: 3, Seed: 600, Actions: acts}
		if err := c13RunCase(w, cs, map[string]any{"class": "second-worker-after-renewal", "scenario": cs.Scenario}); err != nil {
			return err
		}
	}
	// ---- corpus: a revoked wildcard certificate (Names[0] differs from the SNI) is replaced through a
	// handshake, the replacement is revoked in turn, later handshakes must renew again: the obtain map is
	// keyed by the ClientHello name throughout (register, close, delete), nothing stays behind ----
	for i, sc := range []string{"cached-revoked-wildcard", "cached-revoked"} {
		// (goroutine 1 is the background renewal spawned by handshake 0, goroutine 4 the one spawned by 3)
		acts := []c13Action{{Kind: "arrive", T: 0}, {Kind: "arrive", T: 2}, {Kind: "release", T: 1, Allow: &yes}, {Kind: "release", T: 1},
			{Kind: "release", T: 1, Outcome: "ok"}, {Kind: "release", T: 1}, {Kind: "revoke", T: 2}, {Kind: "arrive", T: 3}, {Kind: "arrive", T: 5}}
		cs := &c13Case{Scenario: sc, Threads: 6, Seed: int64(500 + i), Actions: acts}
		if err := c13RunCase(w, cs, map[string]any{"class": "revoked-replaced-revoked-again", "scenario": cs.Scenario}); err != nil {
			return err
		}
	}
	// ---- corpus: the observation behind C13_expired_never_during_a_renewal_refuted ----
	// cached expired certificate: handshake 0 becomes the renewal worker, handshake 1 waits for it, the
	// issuer fails (or the context is cancelled): handshake 1 re-enters and is served the cached expired
	// certificate with a nil error; a third handshake then starts a new renewal. (The interleaving in
	// which the third handshake is already at the issuer when handshake 1 re-enters is finer than the
	// gates of this harness; the model covers it.)
	for i, out := range []string{"fail", "cancel"} {
		acts := []c13Action{{Kind: "arrive", T: 0}, {Kind: "release", T: 0}, {Kind: "arrive", T: 1}, {Kind: "release", T: 1}, {Kind: "release", T: 0, Allow: &yes},
			{Kind: "release", T: 0}, {Kind: "release", T: 0, Outcome: out}, {Kind: "arrive", T: 2}}
		cs := &c13Case{Scenario: "cached-expired", Threads: 3, Seed: int64(300 + i), Actions: acts}
		if err := c13RunCase(w, cs, map[string]any{"class": "expired-served-after-failed-renewal", "scenario": cs.Scenario, "outcome": out}); err != nil {
			return err
		}
	}
	rr := rand.New(rand.NewSource(seed))
	n := 40
	if tier == "thorough" {
		n = 400
	}
	for _, sc := range c13Scenarios {
		for i := 0; i < n; i++ {
			cs := &c13Case{Scenario: sc, Threads: 2 + rr.Intn(5), Seed: rr.Int63()}
			cs.Mgr = i%8 == 7 // every eighth run: with a slow external manager
			if err := c13RunCase(w, cs, map[string]any{"class": "random", "scenario": sc}); err != nil {
				if errors.Is(err, c13ErrUnsettled) {
					return err
				}
				kb, _ := json.Marshal(cs)
				return fmt.Errorf("%v: case %s", err, kb)
			}
		}
	}
	return nil
}
