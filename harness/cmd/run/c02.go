//go:build !skip_c02

package main

// C02 — on-demand TLS never issues or loads for names the policy does not permit.
//
// The harness builds a world (certificate cache, storage, on-demand policy) out of real
// certificates, runs histories of real Config.GetCertificate calls interleaved with changes of
// the environment, and records for each handshake the effects it caused, per goroutine:
// DecisionFunc calls, storage reads of certificate bundles, issuer calls. Goroutines spawned by
// the handshake (ARI refresh, background renewal) are run "youngest first" (the parent's next
// call waits until the goroutines it spawned have finished), which is the order the model uses.

import (
	"context"
	"crypto/tls"
	"crypto/x509"
	"encoding/json"
	"encoding/pem"
	"errors"
	"fmt"
	"io/fs"
	"math/rand"
	"sort"
	"strings"
	"sync"
	"time"
	"unicode"

	"github.com/caddyserver/certmagic"
	"github.com/mholt/acmez/v3/acme"
	"golang.org/x/crypto/ocsp"

	"verifharness/pkg/doubles"
	"verifharness/pkg/emit"
	"verifharness/pkg/hsutil"
)

func init() { register("C02", runC02) }

// ---------------------------------------------------------------- case description (replayable)

type c02CertSpec struct {
	Names   []string `json:"names"`
	Class   string   `json:"class"` // valid | due | expired
	Managed bool     `json:"managed"`
	Cached  bool     `json:"cached"`
	Stored  bool     `json:"stored"` // bundle under Names[0]
	Revoked bool     `json:"revoked,omitempty"`
	KeyComp bool     `json:"keycomp,omitempty"`
	ARI     string   `json:"ari,omitempty"` // "" | "stale-due" | "stale-nodue": cached ARI needs a refresh, storage has a newer one
}

type c02Policy struct {
	OD    string     `json:"od"`              // none | decision | allow
	Sched [][]string `json:"sched,omitempty"` // decision: names permitted at the k-th evaluation since the policy was set (last entry repeats)
	Allow []string   `json:"allow,omitempty"`
	Mgr   bool       `json:"mgr,omitempty"` // an external certificate manager (OnDemand.Managers) is configured
}

type c02Op struct {
	Kind    string     `json:"kind"` // hs | policy | storedel | storeput | revoke | cachedel
	SNI     string     `json:"sni,omitempty"`
	IssueOK bool       `json:"issue_ok,omitempty"`
	Vanish  bool       `json:"vanish,omitempty"` // the bundle the handshake loads is deleted right after it was read
	Policy  *c02Policy `json:"policy,omitempty"`
	Name    string     `json:"name,omitempty"`
	Cert    int        `json:"cert,omitempty"` // certificate id (1-based index into Certs)
	KeyComp bool       `json:"keycomp,omitempty"`
	Mgr     string     `json:"mgr,omitempty"` // hs: answer of the external manager: "" (nil, nil) | cert (certificate Cert) | err
}

type c02Case struct {
	Fallback string        `json:"fallback,omitempty"` // cfg.FallbackServerName
	Policy   c02Policy     `json:"policy"`
	Cap      int           `json:"cap"`
	Certs    []c02CertSpec `json:"certs"`
	Ops      []c02Op       `json:"ops"`
}

// ---------------------------------------------------------------- environment

type c02Cert struct {
	id       int
	spec     c02CertSpec
	chainPEM []byte
	keyPEM   []byte
	hash     string
}

type c02Effect struct {
	Kind string `json:"k"` // decision exists load meta issue
	Name string `json:"n"`
	Ans  bool   `json:"a,omitempty"`
}

type c02Env struct {
	b     *doubles.MemBackend
	ca    *doubles.CA
	iss   *doubles.IssuerDouble
	cfg   *certmagic.Config
	cache *certmagic.Cache
	certs []*c02Cert

	mu        sync.Mutex
	pol       c02Policy
	polBase   int // number of decision evaluations when the policy was set
	evals     int
	issueOK   bool
	vanish    bool   // delete the bundle last read at the next Exists call
	lastLoad  string // name of the bundle last read during the current handshake
	opG       map[int]int64
	parent    map[int64]int64 // goroutine -> goroutine that spawned it (handshake-spawned goroutines)
	stuck     []string
	unsafeMap map[string]string // Safe(name) -> name
	base      *certmagic.Config // the Config the environment was built with (e.cfg is the serving one)
	mgrAns    string            // answer of the external manager during the current handshake
	mgrCert   *tls.Certificate
}

// c02Manager is the external certificate manager double (certmagic.Manager).
type c02Manager struct{ e *c02Env }

func (m c02Manager) GetCertificate(ctx context.Context, hello *tls.ClientHelloInfo) (*tls.Certificate, error) {
	e := m.e
	name, err := certmagic.VerifNameFromClientHello(e.cfg, hello)
	if err != nil {
		name = "?" + hello.ServerName
	}
	e.b.Log.Begin(doubles.Op{Inst: "i1", Kind: "Manager", Key: name})
	e.mu.Lock()
	ans, c := e.mgrAns, e.mgrCert
	e.mu.Unlock()
	switch ans {
	case "cert":
		return c, nil
	case "err":
		return nil, errors.New("manager double: no")
	}
	return nil, nil
}

const c02IssuerKey = "dbl"

var c02ErrDenied = errors.New("policy says no")

func (e *c02Env) noteName(n string) {
	e.unsafeMap[certmagic.StorageKeys.Safe(n)] = n
}

// hook runs before every storage / issuer / decision call takes effect.
func (e *c02Env) hook(op *doubles.Op) error {
	gid := hsutil.ID()
	e.mu.Lock()
	e.opG[op.Seq] = gid
	e.mu.Unlock()
	// child first: wait until no goroutine descending from this one (spawned by the handshake
	// code: ARI refresh, background renewal) is alive. Goroutine ids are not monotonic, so the
	// ancestry is recorded from the "created by ... in goroutine N" lines of the dumps.
	deadline := time.Now().Add(20 * time.Second)
	for {
		descendant := false
		dump := hsutil.Dump()
		e.mu.Lock()
		for _, g := range dump {
			if g.SpawnedByCertmagicHandshake() {
				e.parent[g.ID] = g.Parent
			}
		}
		for _, g := range dump {
			if !g.SpawnedByCertmagicHandshake() {
				continue
			}
			for p, n := e.parent[g.ID], 0; p != 0 && n < 100; p, n = e.parent[p], n+1 {
				if p == gid {
					descendant = true
					break
				}
			}
		}
		e.mu.Unlock()
		if !descendant {
			break
		}
		if time.Now().After(deadline) {
			e.mu.Lock()
			e.stuck = append(e.stuck, fmt.Sprintf("goroutine %d waited 20s for its descendants at %s %s", gid, op.Kind, op.Key))
			e.mu.Unlock()
			break
		}
		time.Sleep(100 * time.Microsecond)
	}
	// the bundle vanishes between its load and the check whether it (still) exists
	if n, ext, ok := e.nameOfKeyLocked(op.Key); ok {
		e.mu.Lock()
		if op.Kind == "Load" && ext == ".crt" {
			e.lastLoad = n
		}
		if op.Kind == "Exists" && e.vanish && e.lastLoad != "" {
			e.vanish = false
			e.deleteBundle(e.lastLoad)
		}
		e.mu.Unlock()
	}
	// a missing certificate asset fails promptly: ErrNoRetry stops certmagic's retry loop
	// (first retry after one minute), errors.Is(err, fs.ErrNotExist) still holds
	if op.Kind == "Load" && strings.HasPrefix(op.Key, "certificates/") {
		if _, ok := e.b.Get(op.Key); !ok {
			return certmagic.ErrNoRetry{Err: fs.ErrNotExist}
		}
	}
	return nil
}

func (e *c02Env) decision(ctx context.Context, name string) error {
	seq, _ := e.b.Log.Begin(doubles.Op{Inst: "i1", Kind: "Decision", Key: name})
	e.mu.Lock()
	k := e.evals - e.polBase
	e.evals++
	var set []string
	if len(e.pol.Sched) > 0 {
		if k >= len(e.pol.Sched) {
			k = len(e.pol.Sched) - 1
		}
		set = e.pol.Sched[k]
	}
	e.mu.Unlock()
	for _, n := range set {
		if n == name {
			return nil
		}
	}
	e.b.Log.SetErr(seq, c02ErrDenied)
	return c02ErrDenied
}

func c02Validity(class string) (nb, na time.Time) {
	now := time.Now()
	switch class {
	case "due":
		return now.Add(-80 * 24 * time.Hour), now.Add(10 * 24 * time.Hour)
	case "expired":
		return now.Add(-100 * 24 * time.Hour), now.Add(-24 * time.Hour)
	default:
		return now.Add(-time.Hour), now.Add(90*24*time.Hour - time.Hour)
	}
}

func c02Meta(names []string, ari *acme.RenewalInfo) []byte {
	ac := acme.Certificate{URL: "https://ca.invalid/cert/1", RenewalInfo: ari}
	acb, _ := json.Marshal(ac)
	res := certmagic.CertificateResource{SANs: names, IssuerData: acb}
	b, _ := json.MarshalIndent(res, "", "\t")
	return b
}

func (e *c02Env) storeBundle(c *c02Cert, ari *acme.RenewalInfo) {
	k := certmagic.StorageKeys
	n := c.spec.Names[0]
	e.b.Put(k.SiteCert(c02IssuerKey, n), c.chainPEM)
	e.b.Put(k.SitePrivateKey(c02IssuerKey, n), c.keyPEM)
	e.b.Put(k.SiteMeta(c02IssuerKey, n), c02Meta(c.spec.Names, ari))
}

func (e *c02Env) deleteBundle(name string) {
	k := certmagic.StorageKeys
	e.b.Remove(k.SiteCert(c02IssuerKey, name))
	e.b.Remove(k.SitePrivateKey(c02IssuerKey, name))
	e.b.Remove(k.SiteMeta(c02IssuerKey, name))
}

func c02StaleARI() *acme.RenewalInfo {
	ari := &acme.RenewalInfo{}
	ari.SuggestedWindow.Start = time.Now().Add(40 * 24 * time.Hour).UTC().Truncate(time.Second)
	ari.SuggestedWindow.End = time.Now().Add(41 * 24 * time.Hour).UTC().Truncate(time.Second)
	return ari // no RetryAfter: NeedsRefresh() is true
}

func c02NewerARI(dueNow bool) *acme.RenewalInfo {
	ari := &acme.RenewalInfo{}
	ra := time.Now().Add(6 * time.Hour).UTC()
	ari.RetryAfter = &ra
	if dueNow {
		ari.SuggestedWindow.Start = time.Now().Add(-2 * time.Hour).UTC().Truncate(time.Second)
		ari.SuggestedWindow.End = time.Now().Add(2 * time.Hour).UTC().Truncate(time.Second)
		ari.SelectedTime = time.Now().Add(-time.Hour).UTC()
	} else {
		ari.SuggestedWindow.Start = time.Now().Add(50 * 24 * time.Hour).UTC().Truncate(time.Second)
		ari.SuggestedWindow.End = time.Now().Add(51 * 24 * time.Hour).UTC().Truncate(time.Second)
		ari.SelectedTime = time.Now().Add(50*24*time.Hour + time.Hour).UTC()
	}
	return ari
}

func (e *c02Env) setPolicy(p c02Policy) {
	e.mu.Lock()
	e.pol = p
	e.polBase = e.evals
	e.mu.Unlock()
	if e.base == nil {
		e.base = e.cfg
	}
	certmagic.Default.OnDemand = nil
	e.cfg = e.base
	switch p.OD {
	case "allow-tmpl-before", "allow-tmpl-after":
		// the documented template flow: on-demand is enabled on certmagic.Default (no DecisionFunc: the
		// implicit allowlist is the policy); the names are declared through ONE Config made from the
		// template, the handshakes are served by ANOTHER one, made before or after that Manage call.
		// Both share Default.OnDemand, so the serving Config sees the names. (Default is restored by
		// the next setPolicy / close.)
		e.base.OnDemand = nil
		certmagic.Default.OnDemand = &certmagic.OnDemandConfig{}
		tmpl := certmagic.Config{OCSP: e.base.OCSP, FallbackServerName: e.base.FallbackServerName,
			Storage: e.base.Storage, Issuers: e.base.Issuers, Logger: e.base.Logger}
		var serving *certmagic.Config
		if p.OD == "allow-tmpl-before" {
			serving = certmagic.New(e.cache, tmpl)
		}
		managing := certmagic.New(e.cache, tmpl)
		if len(p.Allow) > 0 {
			if err := managing.ManageSync(context.Background(), p.Allow); err != nil {
				panic(err)
			}
		}
		if serving == nil {
			serving = certmagic.New(e.cache, tmpl)
		}
		e.cfg = serving
	case "none":
		e.cfg.OnDemand = nil
	case "decision":
		e.cfg.OnDemand = &certmagic.OnDemandConfig{DecisionFunc: e.decision}
		if len(p.Allow) > 0 {
			// names passed to Manage* on an on-demand config are recorded in the implicit allowlist
			// also when a DecisionFunc is set; the DecisionFunc alone decides then (the model ignores
			// the allowlist for a decision policy)
			if err := e.cfg.ManageSync(context.Background(), p.Allow); err != nil {
				panic(err)
			}
		}
	case "allow":
		e.cfg.OnDemand = &certmagic.OnDemandConfig{}
		if len(p.Allow) > 0 {
			// the implicit allowlist is filled by the Manage functions when on-demand is on
			if err := e.cfg.ManageSync(context.Background(), p.Allow); err != nil {
				panic(err)
			}
		}
	}
	if p.Mgr && e.cfg.OnDemand != nil {
		e.cfg.OnDemand.Managers = []certmagic.Manager{c02Manager{e}}
	}
}

func c02NewEnv(cs *c02Case) (*c02Env, error) {
	e := &c02Env{b: doubles.NewMemBackend(), ca: doubles.NewCA("harness CA"), opG: map[int]int64{}, parent: map[int64]int64{}, unsafeMap: map[string]string{}}
	e.iss = &doubles.IssuerDouble{Key: c02IssuerKey, CA: e.ca, Log: e.b.Log, Inst: "i1"}
	e.iss.Fail = func(n int, names []string) error {
		e.mu.Lock()
		ok := e.issueOK
		e.mu.Unlock()
		if ok {
			return nil
		}
		return certmagic.ErrNoRetry{Err: errors.New("issuer double: refused")}
	}
	tmpl := certmagic.Config{OCSP: certmagic.OCSPConfig{DisableStapling: true}, FallbackServerName: cs.Fallback}
	e.cfg, e.cache = doubles.NewConfig(e.b.Handle("i1"), tmpl, certmagic.CacheOptions{Capacity: cs.Cap}, e.iss)
	ctx := context.Background()
	for i, sp := range cs.Certs {
		nb, na := c02Validity(sp.Class)
		chain, _, key, err := e.ca.Leaf(doubles.LeafOpts{Names: sp.Names, NotBefore: nb, NotAfter: na})
		if err != nil {
			return nil, err
		}
		c := &c02Cert{id: i + 1, spec: sp, chainPEM: chain, keyPEM: key}
		e.certs = append(e.certs, c)
		for _, n := range sp.Names {
			e.noteName(n)
		}
		if sp.Cached {
			if sp.Managed {
				var ari *acme.RenewalInfo
				if sp.ARI != "" {
					ari = c02StaleARI()
				}
				e.storeBundle(c, ari)
				cc, err := e.cfg.CacheManagedCertificate(ctx, sp.Names[0])
				if err != nil {
					return nil, fmt.Errorf("caching %v: %w", sp.Names, err)
				}
				c.hash = cc.Hash()
				e.deleteBundle(sp.Names[0])
			} else {
				h, err := e.cfg.CacheUnmanagedCertificatePEMBytes(ctx, chain, key, nil)
				if err != nil {
					return nil, err
				}
				c.hash = h
			}
			if sp.Revoked {
				reason := ocsp.Unspecified
				if sp.KeyComp {
					reason = ocsp.KeyCompromise
				}
				if !certmagic.VerifSetOCSPStatus(e.cfg, c.hash, ocsp.Revoked, reason) {
					return nil, fmt.Errorf("cert %d not in cache", c.id)
				}
			}
		}
		if sp.Stored {
			var ari *acme.RenewalInfo
			switch sp.ARI {
			case "stale-due":
				ari = c02NewerARI(true)
			case "stale-nodue":
				ari = c02NewerARI(false)
			}
			e.storeBundle(c, ari)
		}
	}
	e.b.Log.Hook = e.hook
	e.setPolicy(cs.Policy)
	return e, nil
}

func (e *c02Env) close() {
	certmagic.Default.OnDemand = nil
	e.cache.Stop()
}

// c02IDOfSerial: harness-made certificates have serials 101.. in creation order, the issuer
// double continues the same sequence.
func c02IDOfSerial(s string) int {
	var v int
	fmt.Sscan(s, &v)
	return v - 100
}

func c02LeafSerial(chainPEM []byte) (int, error) {
	blk, _ := pem.Decode(chainPEM)
	if blk == nil {
		return 0, fmt.Errorf("no PEM block")
	}
	c, err := x509.ParseCertificate(blk.Bytes)
	if err != nil {
		return 0, err
	}
	return c02IDOfSerial(c.SerialNumber.String()), nil
}

// waitQuiet waits until no goroutine spawned by the handshake code is alive.
func c02WaitQuiet() bool {
	deadline := time.Now().Add(30 * time.Second)
	for {
		alive := false
		for _, g := range hsutil.Dump() {
			if g.SpawnedByCertmagicHandshake() {
				alive = true
				break
			}
		}
		if !alive {
			return true
		}
		if time.Now().After(deadline) {
			return false
		}
		time.Sleep(200 * time.Microsecond)
	}
}

type c02HsObs struct {
	Name     *string       `json:"name"`              // normalised name (nil: error)
	Hit      int           `json:"hit"`               // certificate id matched in the cache (0: none)
	Default  int           `json:"default,omitempty"` // certificate id "defaulted" by the cache lookup (0: none)
	Mgr      string        `json:"mgr,omitempty"`     // what the managers would answer: none | empty | cert | err
	Gs       [][]c02Effect `json:"effects"`
	Res      string        `json:"res"` // cert | empty | err
	ResID    int           `json:"res_id,omitempty"`
	Err      string        `json:"err,omitempty"`
	CacheIDs []int         `json:"cache"`
	Store    [][2]any      `json:"store"`
	Evals    int           `json:"evals_before"`
	Hung     string        `json:"hung,omitempty"` // wait site the handshake goroutine is stuck in
}

// c02ErrHang ends the run after the case in which a handshake was found hanging.
var c02ErrHang = errors.New("a handshake hangs; run ended after recording the case")

// c02ProvablyHung: the goroutine is in the select of a wait site of handshake.go and no goroutine
// spawned by the handshake code exists.
func c02ProvablyHung(gid int64) string {
	where := ""
	for _, g := range hsutil.Dump() {
		if g.SpawnedByCertmagicHandshake() {
			return ""
		}
		if g.ID == gid && g.State == "select" {
			for _, f := range g.Funcs {
				if !strings.HasPrefix(f, "runtime.") {
					where = c13WaitFuncs[f]
					break
				}
			}
		}
	}
	return where
}

func (e *c02Env) nameOfKeyLocked(key string) (string, string, bool) {
	e.mu.Lock()
	defer e.mu.Unlock()
	return e.nameOfKey(key)
}

// nameOfKey: "certificates/<issuer>/<safe name>/<safe name>.ext" -> (name, ext)
func (e *c02Env) nameOfKey(key string) (string, string, bool) {
	parts := strings.Split(key, "/")
	if len(parts) != 4 || parts[0] != "certificates" {
		return "", "", false
	}
	safe := parts[2]
	ext := strings.TrimPrefix(parts[3], safe)
	n, ok := e.unsafeMap[safe]
	if !ok {
		n = "?" + safe
	}
	return n, ext, true
}

func (e *c02Env) project(ops []doubles.Op, fg int64) [][]c02Effect {
	e.mu.Lock()
	defer e.mu.Unlock()
	byG := map[int64][]c02Effect{}
	var order []int64
	for _, o := range ops {
		g := e.opG[o.Seq]
		var ef *c02Effect
		switch o.Kind {
		case "Decision":
			ef = &c02Effect{Kind: "decision", Name: o.Key, Ans: o.Err == ""}
		case "Exists":
			if n, _, ok := e.nameOfKey(o.Key); ok {
				ef = &c02Effect{Kind: "exists", Name: n}
			}
		case "Load":
			if n, ext, ok := e.nameOfKey(o.Key); ok {
				if ext == ".json" {
					prev := byG[g]
					if len(prev) > 0 && prev[len(prev)-1].Kind == "load" && prev[len(prev)-1].Name == n {
						continue // part of the bundle read
					}
					ef = &c02Effect{Kind: "meta", Name: n}
				} else {
					ef = &c02Effect{Kind: "load", Name: n}
				}
			}
		case "Manager":
			ef = &c02Effect{Kind: "manager", Name: o.Key}
		case "IssueStart":
			// key "<issuer>:[name]"
			n := strings.TrimSuffix(strings.TrimPrefix(o.Key, c02IssuerKey+":["), "]")
			ef = &c02Effect{Kind: "issue", Name: n}
		}
		if ef == nil {
			continue
		}
		if _, seen := byG[g]; !seen && g != fg {
			order = append(order, g)
		}
		byG[g] = append(byG[g], *ef)
	}
	out := [][]c02Effect{byG[fg]}
	if out[0] == nil {
		out[0] = []c02Effect{}
	}
	for _, g := range order {
		out = append(out, byG[g])
	}
	return out
}

func (e *c02Env) storeView() ([][2]any, error) {
	var out [][2]any
	k := certmagic.StorageKeys
	seen := map[string]bool{}
	for _, key := range e.b.Keys() {
		n, ext, ok := e.nameOfKey(key)
		if !ok || ext != ".crt" || seen[n] {
			continue
		}
		seen[n] = true
		_, ok1 := e.b.Get(k.SitePrivateKey(c02IssuerKey, n))
		_, ok2 := e.b.Get(k.SiteMeta(c02IssuerKey, n))
		if !ok1 || !ok2 {
			continue // incomplete bundle
		}
		pemb, _ := e.b.Get(key)
		id, err := c02LeafSerial(pemb)
		if err != nil {
			return nil, err
		}
		out = append(out, [2]any{n, id})
	}
	sort.Slice(out, func(i, j int) bool { return out[i][0].(string) < out[j][0].(string) })
	return out, nil
}

func (e *c02Env) cacheView() []int {
	certs, _ := certmagic.VerifCacheSnapshot(e.cfg)
	var ids []int
	for _, c := range certs {
		ids = append(ids, c02IDOfSerial(c.Serial))
	}
	sort.Ints(ids)
	return ids
}

func (e *c02Env) handshake(op c02Op) (*c02HsObs, error) {
	obs := &c02HsObs{}
	hello, closeHello := doubles.Hello(op.SNI)
	defer closeHello()
	if n, err := certmagic.VerifNameFromClientHello(e.cfg, hello); err == nil {
		obs.Name = &n
		e.noteName(n)
		if i := strings.Index(n, "."); i >= 0 {
			e.noteName("*" + n[i:])
		} else {
			e.noteName("*")
		}
	}
	if c, matched, defaulted := certmagic.VerifCacheLookup(e.cfg, hello); matched {
		obs.Hit = c02IDOfSerial(c.Serial)
	} else if defaulted {
		obs.Default = c02IDOfSerial(c.Serial)
	}
	e.mu.Lock()
	obs.Mgr = "none"
	e.mgrAns, e.mgrCert = "", nil
	if e.pol.Mgr && e.pol.OD != "none" {
		obs.Mgr = "empty"
		switch op.Mgr {
		case "cert":
			if op.Cert < 1 || op.Cert > len(e.certs) {
				e.mu.Unlock()
				return nil, fmt.Errorf("manager certificate %d does not exist", op.Cert)
			}
			mc := e.certs[op.Cert-1]
			kp, err := tls.X509KeyPair(mc.chainPEM, mc.keyPEM)
			if err != nil {
				e.mu.Unlock()
				return nil, err
			}
			obs.Mgr, e.mgrAns, e.mgrCert = "cert", "cert", &kp
		case "err":
			obs.Mgr, e.mgrAns = "err", "err"
		}
	}
	e.issueOK = op.IssueOK
	e.vanish = op.Vanish
	e.lastLoad = ""
	obs.Evals = e.evals
	e.mu.Unlock()
	off := len(e.b.Log.Snapshot())
	type ret struct {
		serial string
		empty  bool
		err    error
		gid    int64
	}
	ch := make(chan ret, 1)
	gidCh := make(chan int64, 1)
	go func() {
		gid := hsutil.ID()
		gidCh <- gid
		ctx, cancel := context.WithTimeout(context.Background(), 60*time.Second)
		defer cancel()
		cert, err := e.cfg.GetCertificateWithContext(ctx, hello)
		r := ret{err: err, gid: gid}
		if err == nil {
			// a complete certificate has a non-empty chain AND a private key
			if cert == nil || len(cert.Certificate) == 0 || cert.PrivateKey == nil {
				r.empty = true
			} else {
				leaf := cert.Leaf
				if leaf == nil {
					leaf, _ = x509.ParseCertificate(cert.Certificate[0])
				}
				r.serial = leaf.SerialNumber.String()
			}
		}
		ch <- r
	}()
	var r ret
	hsGid := <-gidCh
	began := time.Now()
	hung := ""
wait:
	for {
		select {
		case r = <-ch:
			break wait
		case <-time.After(20 * time.Millisecond):
		}
		// Only one handshake runs at a time here, so a handshake goroutine that sits in the select
		// of one of the three wait sites of handshake.go while no goroutine spawned by the handshake
		// code is alive waits for a channel nobody will close (in practice: the one it registered
		// itself): a provable hang until the 2-minute time-out. It is recorded as a "selfwait" effect
		// (never waited out); the run ends after this case, because the goroutine left behind keeps
		// its package-level registration for the name.
		if time.Since(began) > 90*time.Second {
			return nil, fmt.Errorf("handshake for %q did not return within 90s", op.SNI)
		}
		if where := c02ProvablyHung(hsGid); where != "" {
			// confirm on a second snapshot (the state must be stable)
			time.Sleep(5 * time.Millisecond)
			if c02ProvablyHung(hsGid) == where {
				select {
				case r = <-ch:
					break wait
				default:
				}
				hung = where
				r = ret{err: fmt.Errorf("harness: handshake goroutine hangs in %s (nobody left to release it)", where), gid: hsGid}
				break wait
			}
		}
	}
	if hung == "" && !c02WaitQuiet() {
		return nil, fmt.Errorf("background goroutines of the handshake for %q still alive after 30s", op.SNI)
	}
	// a bundle that was read but whose existence was never checked vanishes now (same final state)
	e.mu.Lock()
	if e.vanish && e.lastLoad != "" {
		e.deleteBundle(e.lastLoad)
	}
	e.vanish = false
	e.mu.Unlock()
	all := e.b.Log.Snapshot()
	obs.Gs = e.project(all[off:], r.gid)
	if hung != "" {
		n := ""
		if obs.Name != nil {
			n = *obs.Name
		}
		obs.Gs[0] = append(obs.Gs[0], c02Effect{Kind: "selfwait", Name: n})
		obs.Hung = hung
	}
	switch {
	case r.err != nil:
		obs.Res, obs.Err = "err", r.err.Error()
	case r.empty:
		obs.Res = "empty"
	default:
		obs.Res, obs.ResID = "cert", c02IDOfSerial(r.serial)
	}
	obs.CacheIDs = e.cacheView()
	var err error
	obs.Store, err = e.storeView()
	if err != nil {
		return nil, err
	}
	e.mu.Lock()
	stuck := e.stuck
	e.mu.Unlock()
	if len(stuck) > 0 {
		return nil, fmt.Errorf("harness ordering rule blocked: %v", stuck)
	}
	return obs, nil
}

// ---------------------------------------------------------------- wire encoding

var c02ClassDue = map[string][2]bool{"valid": {false, false}, "due": {true, false}, "expired": {true, true}}

// encCert: id names managed due expired revoked keycomp ari(opt bool)
func c02EncCert(e *emit.Enc, id int, sp c02CertSpec, asStored bool) {
	d := c02ClassDue[sp.Class]
	due, expired := d[0], d[1]
	revoked, keycomp, managed := sp.Revoked, sp.KeyComp, sp.Managed
	ariSome, ariD := sp.ARI != "", sp.ARI == "stale-due"
	if asStored {
		// the stored bundle: no OCSP status; its metadata carries the newer ARI, if any
		revoked, keycomp, managed = false, false, true
	}
	e.Int(id).StrList(sp.Names).Bool(managed).Bool(due).Bool(expired).Bool(revoked).Bool(keycomp)
	if ariSome {
		e.Bool(true).Bool(ariD)
	} else {
		e.Bool(false)
	}
}

func c02EncPolicy(e *emit.Enc, p c02Policy, base int) {
	switch p.OD {
	case "none":
		e.Int(0)
	case "decision":
		e.Int(1).Int(base).Len(len(p.Sched))
		for _, s := range p.Sched {
			e.StrList(s)
		}
	case "allow", "allow-tmpl-before", "allow-tmpl-after":
		e.Int(2).StrList(p.Allow)
	}
}

var c02EffTag = map[string]int{"decision": 0, "exists": 2, "load": 3, "meta": 4, "issue": 5, "selfwait": 7, "manager": 8}

func c02EncEffects(e *emit.Enc, gs [][]c02Effect) {
	e.Len(len(gs))
	for _, g := range gs {
		e.Len(len(g))
		for _, ef := range g {
			e.Int(c02EffTag[ef.Kind]).Str(ef.Name)
			if ef.Kind == "decision" {
				e.Bool(ef.Ans)
			}
		}
	}
}

func c02SpaceTable(e *emit.Enc, strs ...string) {
	seen := map[rune]bool{}
	var st []rune
	for _, s := range strs {
		for _, r := range s {
			if r >= 128 && !seen[r] && unicode.IsSpace(r) {
				seen[r] = true
				st = append(st, r)
			}
		}
	}
	e.Len(len(st))
	for _, r := range st {
		e.Z(int64(r))
	}
}

// runCase executes one history and emits it as one case.
func c02RunCase(w *emit.Writer, cs *c02Case, desc map[string]any) error {
	env, err := c02NewEnv(cs)
	if err != nil {
		return err
	}
	defer env.close()
	enc := &emit.Enc{}
	enc.Int(0)
	var obsAll []any
	body := &emit.Enc{}
	// world
	c02EncPolicy(body, cs.Policy, 0)
	body.Int(cs.Cap)
	nCached := 0
	for _, sp := range cs.Certs {
		if sp.Cached {
			nCached++
		}
	}
	body.Len(nCached)
	for i, sp := range cs.Certs {
		if sp.Cached {
			c02EncCert(body, i+1, sp, false)
		}
	}
	nStored := 0
	for _, sp := range cs.Certs {
		if sp.Stored {
			nStored++
		}
	}
	body.Len(nStored)
	for i, sp := range cs.Certs {
		if sp.Stored {
			body.Str(sp.Names[0])
			c02EncCert(body, i+1, sp, true)
		}
	}
	body.Int(len(cs.Certs) + 1) // next certificate identity
	var allNames []string
	nontrivial := false
	world := body
	body = &emit.Enc{} // the operations (their number is known only at the end: a hang ends the case)
	nOps := 0
	hangSeen := false
	for _, op := range cs.Ops {
		if hangSeen {
			break
		}
		nOps++
		switch op.Kind {
		case "hs":
			o, err := env.handshake(op)
			if err != nil {
				return err
			}
			hangSeen = o.Hung != ""
			obsAll = append(obsAll, o)
			body.Int(0)
			if o.Name != nil {
				body.Bool(true).Str(*o.Name)
				allNames = append(allNames, *o.Name)
			} else {
				body.Bool(false)
			}
			if o.Hit > 0 {
				body.Bool(true).Int(o.Hit)
			} else {
				body.Bool(false)
			}
			if o.Default > 0 {
				body.Bool(true).Int(o.Default)
			} else {
				body.Bool(false)
			}
			switch o.Mgr {
			case "empty":
				body.Int(1)
			case "cert":
				body.Int(2).Int(op.Cert)
			case "err":
				body.Int(3)
			default:
				body.Int(0)
			}
			w.Hist("mgr=" + o.Mgr)
			w.Hist(fmt.Sprintf("defaulted=%v", o.Default > 0))
			body.Bool(op.IssueOK).Bool(op.Vanish)
			c02EncEffects(body, o.Gs)
			switch o.Res {
			case "cert":
				body.Int(0).Int(o.ResID)
			case "empty":
				body.Int(1)
			default:
				body.Int(2)
			}
			body.Len(len(o.CacheIDs))
			for _, id := range o.CacheIDs {
				body.Int(id)
			}
			body.Len(len(o.Store))
			for _, kv := range o.Store {
				body.Str(kv[0].(string)).Int(kv[1].(int))
			}
			for _, g := range o.Gs {
				if len(g) > 0 {
					nontrivial = true
				}
				for _, ef := range g {
					w.Hist("effect=" + ef.Kind)
				}
			}
			w.Hist("result=" + o.Res)
			w.Hist(fmt.Sprintf("goroutines=%d", len(o.Gs)))
		case "policy":
			env.setPolicy(*op.Policy)
			env.mu.Lock()
			base := env.polBase
			env.mu.Unlock()
			body.Int(1)
			c02EncPolicy(body, *op.Policy, base)
			obsAll = append(obsAll, nil)
		case "storedel":
			env.deleteBundle(op.Name)
			body.Int(2).Str(op.Name)
			obsAll = append(obsAll, nil)
		case "storeput":
			c := env.certs[op.Cert-1]
			env.storeBundle(c, nil)
			body.Int(3).Str(c.spec.Names[0])
			sp := c.spec
			sp.ARI = ""
			c02EncCert(body, c.id, sp, true)
			obsAll = append(obsAll, nil)
		case "revoke":
			c := env.certs[op.Cert-1]
			if c.hash == "" {
				return fmt.Errorf("revoke: cert %d was never cached", op.Cert)
			}
			reason := ocsp.Unspecified
			if op.KeyComp {
				reason = ocsp.KeyCompromise
			}
			found := certmagic.VerifSetOCSPStatus(env.cfg, c.hash, ocsp.Revoked, reason)
			sp := c.spec
			sp.Revoked, sp.KeyComp = true, op.KeyComp
			c.spec = sp
			body.Int(4)
			c02EncCert(body, c.id, sp, false)
			_ = found // revoking a certificate that is no longer cached is a no-op on both sides
			obsAll = append(obsAll, nil)
		case "cachedel":
			c := env.certs[op.Cert-1]
			if c.hash != "" {
				env.cache.Remove([]string{c.hash})
			}
			body.Int(5).Int(c.id)
			obsAll = append(obsAll, nil)
		default:
			return fmt.Errorf("unknown op kind %q", op.Kind)
		}
	}
	for _, sp := range cs.Certs {
		allNames = append(allNames, sp.Names...)
	}
	c02SpaceTable(enc, allNames...)
	world.Len(nOps)
	wire := enc.String() + " " + world.String()
	if nOps > 0 {
		wire += " " + body.String()
	}
	kb, _ := json.Marshal(cs)
	w.Add(emit.Case{Desc: desc, In: cs, Obs: obsAll, Wire: wire, Nontrivial: nontrivial, Key: string(kb)})
	if hangSeen {
		w.Hist("hang=true")
		return c02ErrHang
	}
	return nil
}

// ---------------------------------------------------------------- SubjectQualifiesForCert cases

func c02QualCase(w *emit.Writer, s string) {
	enc := &emit.Enc{}
	enc.Int(1)
	c02SpaceTable(enc, s)
	got := certmagic.SubjectQualifiesForCert(s)
	enc.Str(s).Bool(got)
	w.Add(emit.Case{Desc: map[string]any{"class": "qualifies"}, In: s, Obs: got, Wire: enc.String(),
		Nontrivial: true, Key: "q:" + s})
	w.Hist(fmt.Sprintf("qualifies=%v", got))
}

// ---------------------------------------------------------------- generators

func c02Single(p c02Policy, capN int, certs []c02CertSpec, sni string, issueOK bool) *c02Case {
	return &c02Case{Policy: p, Cap: capN, Certs: certs, Ops: []c02Op{{Kind: "hs", SNI: sni, IssueOK: issueOK}}}
}

func c02Fillers(n int) []c02CertSpec {
	var out []c02CertSpec
	for i := 0; i < n; i++ {
		out = append(out, c02CertSpec{Names: []string{fmt.Sprintf("filler%d.example", i)}, Class: "valid", Cached: true})
	}
	return out
}

func c02Policies(name string) map[string]c02Policy {
	return map[string]c02Policy{
		"none":           {OD: "none"},
		"decision-yes":   {OD: "decision", Sched: [][]string{{name, "other.example"}}},
		"decision-no":    {OD: "decision", Sched: [][]string{{"other.example"}}},
		"decision-flip":  {OD: "decision", Sched: [][]string{{name}, {}}},        // permits once, then denies
		"decision-flip2": {OD: "decision", Sched: [][]string{{}, {name}}},        // denies once, then permits
		"decision-first": {OD: "decision", Sched: [][]string{{"first.example"}}}, // permits only another name of a multi-SAN certificate
		// a DecisionFunc AND a non-empty implicit allowlist (names recorded by an earlier Manage* call)
		"decision-yes+listed":   {OD: "decision", Sched: [][]string{{name, "other.example"}}, Allow: []string{name}},
		"decision-no+listed":    {OD: "decision", Sched: [][]string{{"other.example"}}, Allow: []string{name, "first.example", "*.example"}},
		"decision-no+unlisted":  {OD: "decision", Sched: [][]string{{"other.example"}}, Allow: []string{"other.example"}},
		"decision-flip+listed":  {OD: "decision", Sched: [][]string{{name}, {}}, Allow: []string{name}},
		"decision-yes+unlisted": {OD: "decision", Sched: [][]string{{name, "other.example"}}, Allow: []string{"other.example"}},
		"allow-in":              {OD: "allow", Allow: []string{name, "other.example"}},
		"allow-out":             {OD: "allow", Allow: []string{"other.example"}},
		"allow-empty":           {OD: "allow"},
		// a WILDCARD among the managed names: the implicit allowlist is a set of exact names, a
		// hostname below a managed wildcard is not on it
		"allow-wild-parent":    {OD: "allow", Allow: []string{"*.example", "other.example"}},
		"allow-wild-unrelated": {OD: "allow", Allow: []string{"*.other.example"}},
		"allow-wild-and-name":  {OD: "allow", Allow: []string{"*.example", name}},
		// the template flow: Default.OnDemand, names managed through one Config, handshakes served by another
		"tmpl-allow-in-before":  {OD: "allow-tmpl-before", Allow: []string{name, "other.example"}},
		"tmpl-allow-out-before": {OD: "allow-tmpl-before", Allow: []string{"other.example"}},
		"tmpl-allow-in-after":   {OD: "allow-tmpl-after", Allow: []string{name, "other.example"}},
		"tmpl-allow-out-after":  {OD: "allow-tmpl-after", Allow: []string{"other.example"}},
	}
}

func runC02(tier string, seed int64, outdir string, replay string) error {
	err := c02Run(tier, seed, outdir, replay)
	if errors.Is(err, c02ErrHang) {
		return nil // the case is recorded (model and implementation disagree on it); nothing can run after it
	}
	return err
}

func c02Run(tier string, seed int64, outdir string, replay string) error {
	w := emit.NewWriter(outdir, "C02", tier, seed)
	defer w.Close()
	w.Meta.Rule = "distinct histories in which at least one handshake caused an observable effect (decision call, storage read of a bundle, issuer call), plus distinct strings for SubjectQualifiesForCert"
	w.Meta.Oracles = []emit.OracleCheck{}
	rr := rand.New(rand.NewSource(seed))
	if replay != "" {
		rc, err := loadReplay(replay)
		if err != nil {
			return err
		}
		if rc.Desc["class"] == "qualifies" {
			var s string
			if err := json.Unmarshal(rc.In, &s); err != nil {
				return err
			}
			c02QualCase(w, s)
			return nil
		}
		var cs c02Case
		if err := json.Unmarshal(rc.In, &cs); err != nil {
			return err
		}
		return c02RunCase(w, &cs, rc.Desc)
	}
	run := func(cs *c02Case, desc map[string]any) error {
		for k, v := range desc {
			w.Hist(fmt.Sprintf("%s=%v", k, v))
		}
		if err := c02RunCase(w, cs, desc); err != nil {
			kb, _ := json.Marshal(cs)
			if errors.Is(err, c02ErrHang) {
				return err
			}
			return fmt.Errorf("%v: case %s", err, kb)
		}
		return nil
	}
	const N = "foo.example"
	pols := c02Policies(N)
	polNames := emit.SortedKeys(pols)

	// ---- corpus: witnesses of the fixed finding C13-maintenance-failure-obtain as C02 sees it (class
	// loaded-maintenance-fails): an expired certificate in storage only; the renewal run by the
	// maintenance of the just-loaded certificate is denied (decision function: yes, then no) or the
	// issuer fails. Before the fix the handshake went on to obtainOnDemandCertificate: a second read
	// of the bundle after the denial, and a 2-minute wait on its own obtain channel.
	for _, pn := range []string{"decision-flip", "decision-yes", "allow-in", "allow-empty"} {
		for _, ok := range []bool{false, true} {
			if ok && pn != "decision-flip" {
				continue
			}
			cs := c02Single(pols[pn], 0, []c02CertSpec{{Names: []string{N}, Class: "expired", Managed: true, Stored: true}}, N, ok)
			if err := run(cs, map[string]any{"class": "loaded-maintenance-fails", "policy": pn, "cert": "expired", "issue_ok": ok}); err != nil {
				return err
			}
		}
	}

	// ---- corpus: witnesses of the fixed finding C02-revoked-renewal-other-subject (class
	// revoked-renewal-other-subject): a cached revoked wildcard / multi-SAN certificate matched through
	// another name than its first subject; the policy permits the handshake's name only, the first
	// subject only, or both. forceRenew renews Names[0]: that is the name the policy must be asked about.
	for _, names := range [][]string{{"*.example"}, {"first.example", N}} {
		for _, class := range []string{"valid", "expired"} {
			for _, kc := range []bool{false, true} {
				rp := map[string]c02Policy{
					"decision-sni-only":   {OD: "decision", Sched: [][]string{{N}}},
					"decision-first-only": {OD: "decision", Sched: [][]string{{names[0]}}},
					"decision-both":       {OD: "decision", Sched: [][]string{{N, names[0]}}},
					"allow-sni-only":      {OD: "allow", Allow: []string{N}},
					"allow-first-only":    {OD: "allow", Allow: []string{names[0]}},
				}
				for _, pn := range emit.SortedKeys(rp) {
					p := rp[pn]
					cs := c02Single(p, 0, []c02CertSpec{{Names: names, Class: class, Managed: true, Cached: true, Stored: true, Revoked: true, KeyComp: kc}}, N, true)
					if err := run(cs, map[string]any{"class": "revoked-renewal-other-subject", "policy": pn, "cert": class, "subject": names[0], "keycomp": kc}); err != nil {
						return err
					}
				}
			}
		}
	}

	// ---- corpus: the witnesses of the fixed finding (class cached-due-storage-missing) ----
	// cached managed wildcard certificate, due, deleted from storage, policy now denies the name
	for _, pn := range []string{"decision-no", "allow-out", "decision-yes", "none"} {
		for _, class := range []string{"due", "expired"} {
			cs := c02Single(pols[pn], 0, []c02CertSpec{{Names: []string{"*.example"}, Class: class, Managed: true, Cached: true}}, N, true)
			if err := run(cs, map[string]any{"class": "cached-due-storage-missing", "policy": pn, "cert": class, "variant": "wildcard"}); err != nil {
				return err
			}
			cs = c02Single(pols[pn], 0, []c02CertSpec{{Names: []string{N}, Class: class, Managed: true, Cached: true}}, N, true)
			if err := run(cs, map[string]any{"class": "cached-due-storage-missing", "policy": pn, "cert": class, "variant": "exact"}); err != nil {
				return err
			}
		}
	}
	// second witness: on-demand off, cache almost full, certificate loaded by the handshake is due
	// and its bundle disappears is not constructible without a storage race; the reachable part:
	// on-demand off + almost full + stored due certificate
	for _, class := range []string{"valid", "due", "expired"} {
		certs := append(c02Fillers(9), c02CertSpec{Names: []string{N}, Class: class, Managed: true, Stored: true})
		if err := run(c02Single(pols["none"], 10, certs, N, true), map[string]any{"class": "od-off-almost-full", "policy": "none", "cert": class}); err != nil {
			return err
		}
	}

	// the bundle vanishes between the load and the maintenance check (storage-missing branch reached
	// from the miss path; with on-demand off this was the second witness of the fixed finding)
	for _, pn := range []string{"none", "decision-yes", "decision-no", "decision-flip", "allow-in", "allow-out"} {
		for _, class := range []string{"valid", "due", "expired"} {
			for _, ok := range []bool{true, false} {
				certs := []c02CertSpec{{Names: []string{N}, Class: class, Managed: true, Stored: true}}
				capN := 0
				if pn == "none" {
					capN = 10
					certs = append(c02Fillers(9), certs...)
				}
				cs := c02Single(pols[pn], capN, certs, N, ok)
				cs.Ops[0].Vanish = true
				if err := run(cs, map[string]any{"class": "loaded-bundle-vanishes", "policy": pn, "cert": class, "issue_ok": ok}); err != nil {
					return err
				}
			}
		}
	}

	// ---- the abstract input space, exhaustively ----
	type view struct {
		name  string
		certs []c02CertSpec
	}
	var views []view
	views = append(views, view{"miss-absent", nil})
	for _, class := range []string{"valid", "due", "expired"} {
		views = append(views, view{"miss-stored-" + class, []c02CertSpec{{Names: []string{N}, Class: class, Managed: true, Stored: true}}})
	}
	views = append(views, view{"miss-stored-wildcard", []c02CertSpec{{Names: []string{"*.example"}, Class: "valid", Managed: true, Stored: true}}})
	views = append(views, view{"miss-stored-wildcard-due", []c02CertSpec{{Names: []string{"*.example"}, Class: "due", Managed: true, Stored: true}}})
	views = append(views, view{"hit-unmanaged", []c02CertSpec{{Names: []string{N}, Class: "due", Cached: true}}})
	for _, class := range []string{"valid", "due", "expired"} {
		for _, rev := range []string{"", "revoked", "keycomp"} {
			for _, stored := range []bool{true, false} {
				sp := c02CertSpec{Names: []string{N}, Class: class, Managed: true, Cached: true, Stored: stored,
					Revoked: rev != "", KeyComp: rev == "keycomp"}
				nm := "hit-" + class
				if rev != "" {
					nm += "-" + rev
				}
				if !stored {
					nm += "-nostore"
				}
				views = append(views, view{nm, []c02CertSpec{sp}})
			}
		}
	}
	// multi-SAN certificate hit through its second name (the gate is evaluated on the SNI name,
	// forceRenew works on Names[0])
	for _, class := range []string{"valid", "due", "expired"} {
		for _, rev := range []bool{false, true} {
			sp := c02CertSpec{Names: []string{"first.example", N}, Class: class, Managed: true, Cached: true, Stored: true, Revoked: rev}
			nm := "hit-san2-" + class
			if rev {
				nm += "-revoked"
			}
			views = append(views, view{nm, []c02CertSpec{sp}})
		}
	}
	// ARI refresh goroutine
	for _, class := range []string{"valid", "due"} {
		for _, a := range []string{"stale-due", "stale-nodue"} {
			for _, stored := range []bool{true, false} {
				sp := c02CertSpec{Names: []string{N}, Class: class, Managed: true, Cached: true, Stored: stored, ARI: a}
				nm := "hit-" + class + "-ari-" + a
				if !stored {
					nm += "-nostore"
				}
				views = append(views, view{nm, []c02CertSpec{sp}})
			}
		}
	}
	nAbstract := 0
	for _, v := range views {
		for _, pn := range polNames {
			for _, ok := range []bool{true, false} {
				for _, full := range []bool{false, true} {
					if full && !(pn == "none" || pn == "decision-yes") {
						continue // almost-full only changes behaviour when on-demand is off
					}
					certs := append([]c02CertSpec(nil), v.certs...)
					capN := 0
					if full {
						capN = 20
						certs = append(certs, c02Fillers(18)...)
					}
					nAbstract++
					if err := run(c02Single(pols[pn], capN, certs, N, ok),
						map[string]any{"class": "single", "view": v.name, "policy": pn, "issue_ok": ok, "almost_full": full}); err != nil {
						return err
					}
				}
			}
		}
	}
	// ---- FallbackServerName: a "defaulted" certificate is served where the miss path ends without one ----
	fb := c02CertSpec{Names: []string{"fallback.example"}, Class: "valid", Cached: true}
	for _, v := range views {
		if !strings.HasPrefix(v.name, "miss-") {
			continue
		}
		for _, pn := range polNames {
			for _, ok := range []bool{true, false} {
				for _, full := range []bool{false, true} {
					if full && pn != "none" {
						continue
					}
					certs := append(append([]c02CertSpec(nil), v.certs...), fb)
					capN := 0
					if full {
						capN = 20
						certs = append(certs, c02Fillers(17)...)
					}
					cs := c02Single(pols[pn], capN, certs, N, ok)
					cs.Fallback = "fallback.example"
					if err := run(cs, map[string]any{"class": "fallback", "view": v.name, "policy": pn, "issue_ok": ok, "almost_full": full}); err != nil {
						return err
					}
				}
			}
		}
	}
	// ---- external managers (OnDemand.Managers): asked before the policy, on a miss only ----
	mgrCert := c02CertSpec{Names: []string{N}, Class: "valid"}
	for _, v := range views {
		switch v.name {
		case "miss-absent", "miss-stored-valid", "miss-stored-expired", "hit-valid", "hit-due", "hit-expired-nostore", "hit-unmanaged":
		default:
			continue
		}
		for _, pn := range []string{"decision-yes", "decision-no", "decision-flip", "allow-in", "allow-out", "none"} {
			for _, ans := range []string{"", "cert", "err"} {
				for _, ok := range []bool{true, false} {
					if !ok && ans != "" {
						continue
					}
					certs := append(append([]c02CertSpec(nil), v.certs...), mgrCert)
					p := pols[pn]
					p.Mgr = true
					cs := c02Single(p, 0, certs, N, ok)
					cs.Ops[0].Mgr, cs.Ops[0].Cert = ans, len(certs)
					if err := run(cs, map[string]any{"class": "manager", "view": v.name, "policy": pn, "issue_ok": ok, "mgr_answer": "a:" + ans}); err != nil {
						return err
					}
				}
			}
		}
	}
	w.Meta.Exhaustive = true
	w.Meta.Universe = fmt.Sprintf("%d abstract single-handshake cases = %d certificate views (miss/stored/cached x valid/due/expired x revoked/key-compromise x in-storage/missing, multi-SAN, stale ARI) x %d policy shapes x issuer ok/fails x cache almost full or not (where relevant)", nAbstract, len(views), len(polNames))

	// ---- concrete SNI strings per class, against miss / stored / cached states ----
	snis := []string{"foo.example", "FOO.Example", "  foo.example  ", "foo.example.", ".foo.example", "", " ", "*.example", "*", "f*o.example",
		"bücher.example", "xn--bcher-kva.example", "BÜCHER.example", "192.0.2.7", "2001:db8::1", "[2001:db8::1]", "foo_bar.example", "foo bar.example",
		"foo!.example", "a@b.example", "foo.example\x00", "foo\xff.example", "ſoo.example", "foo。example", " foo.example", "foo..example", "-foo.example",
		strings.Repeat("a", 64) + ".example", "localhost", "a.foo.example", "b.a.foo.example", "*.foo.example", "foo.example:443", "(foo).example", "foo+bar.example", "foo=bar.example", "ⓕoo.example"}
	for _, sni := range snis {
		norm := strings.ToLower(strings.TrimSpace(sni))
		for _, pn := range []string{"decision-all", "allow-all", "allow-wildlist", "allow-empty", "none"} {
			var p c02Policy
			switch pn {
			case "decision-all":
				p = c02Policy{OD: "decision", Sched: [][]string{{norm, "xn--bcher-kva.example", "foo.example", "foo.example.", "*.example", "*", "192.0.2.7", "2001:db8::1", "localhost", "foo_bar.example", "-foo.example", strings.Repeat("a", 64) + ".example", "foo..example"}}}
			case "allow-all":
				p = c02Policy{OD: "allow", Allow: []string{norm, "xn--bcher-kva.example", "foo.example"}}
			case "allow-wildlist":
				// only wildcards are managed: their children and grandchildren are not, the literal is
				p = c02Policy{OD: "allow", Allow: []string{"*.example", "*.foo.example", "*"}}
			case "allow-empty":
				p = c02Policy{OD: "allow"}
			default:
				p = c02Policy{OD: "none"}
			}
			for _, st := range []string{"absent", "stored", "cached-due"} {
				var certs []c02CertSpec
				capN := 0
				switch st {
				case "stored":
					certs = []c02CertSpec{{Names: []string{"foo.example"}, Class: "valid", Managed: true, Stored: true}}
				case "cached-due":
					certs = []c02CertSpec{{Names: []string{"foo.example"}, Class: "due", Managed: true, Cached: true, Stored: true}}
				}
				if pn == "none" {
					capN = 20
					certs = append(certs, c02Fillers(18)...)
				}
				if err := run(c02Single(p, capN, certs, sni, true), map[string]any{"class": "sni", "sni_policy": pn, "state": st}); err != nil {
					return err
				}
			}
		}
	}

	// ---- histories: several handshakes with policy changes and environment changes ----
	nHist := 60
	if tier == "thorough" {
		nHist = 600
	}
	names := []string{"foo.example", "bar.example"}
	for i := 0; i < nHist; i++ {
		cs := &c02Case{}
		switch rr.Intn(4) {
		case 3:
			cs.Policy = c02Policy{OD: []string{"allow-tmpl-before", "allow-tmpl-after"}[rr.Intn(2)], Allow: []string{"foo.example"}}
		case 0:
			cs.Policy = c02Policy{OD: "decision", Sched: [][]string{{"foo.example", "bar.example"}}}
		case 1:
			cs.Policy = c02Policy{OD: "decision", Sched: [][]string{{"foo.example"}}}
		default:
			cs.Policy = c02Policy{OD: "allow", Allow: []string{"foo.example"}}
		}
		classes := []string{"valid", "due", "expired"}
		for _, n := range names {
			switch rr.Intn(4) {
			case 0:
			case 1:
				cs.Certs = append(cs.Certs, c02CertSpec{Names: []string{n}, Class: classes[rr.Intn(3)], Managed: true, Stored: true})
			case 2:
				cs.Certs = append(cs.Certs, c02CertSpec{Names: []string{n}, Class: classes[rr.Intn(3)], Managed: true, Stored: true, Cached: true})
			default:
				cs.Certs = append(cs.Certs, c02CertSpec{Names: []string{n}, Class: classes[rr.Intn(3)], Managed: true, Cached: true})
			}
		}
		// a spare certificate another instance may store later
		cs.Certs = append(cs.Certs, c02CertSpec{Names: []string{"foo.example"}, Class: "valid", Managed: true})
		spare := len(cs.Certs)
		// sometimes: names recorded in the implicit allowlist next to the DecisionFunc
		if cs.Policy.OD == "decision" && rr.Intn(2) == 0 {
			cs.Policy.Allow = []string{"foo.example", "bar.example"}
		}
		// sometimes: an external manager, a fallback certificate
		mgrID := 0
		if rr.Intn(3) == 0 {
			cs.Policy.Mgr = true
			cs.Certs = append(cs.Certs, c02CertSpec{Names: []string{"foo.example", "bar.example"}, Class: "valid"})
			mgrID = len(cs.Certs)
		}
		if rr.Intn(3) == 0 {
			cs.Fallback = "fallback.example"
			cs.Certs = append(cs.Certs, c02CertSpec{Names: []string{"fallback.example"}, Class: "valid", Cached: true})
		}
		nOps := 3 + rr.Intn(5)
		for j := 0; j < nOps; j++ {
			switch k := rr.Intn(10); {
			case k < 5:
				cs.Ops = append(cs.Ops, c02Op{Kind: "hs", SNI: names[rr.Intn(2)], IssueOK: rr.Intn(5) != 0})
			case k < 7:
				var p c02Policy
				switch rr.Intn(5) {
				case 0:
					p = c02Policy{OD: "decision", Sched: [][]string{{}}}
				case 1:
					p = c02Policy{OD: "decision", Sched: [][]string{{"foo.example", "bar.example"}}}
				case 2:
					p = c02Policy{OD: "decision", Sched: [][]string{{"foo.example", "bar.example"}, {}}}
				case 3:
					p = c02Policy{OD: "none"}
				default:
					p = c02Policy{OD: "decision", Sched: [][]string{{"bar.example"}}}
				}
				cs.Ops = append(cs.Ops, c02Op{Kind: "policy", Policy: &p})
			case k < 8:
				cs.Ops = append(cs.Ops, c02Op{Kind: "storedel", Name: names[rr.Intn(2)]})
			case k < 9:
				cs.Ops = append(cs.Ops, c02Op{Kind: "storeput", Cert: spare})
			default:
				if len(cs.Certs) > 1 && cs.Certs[0].Cached {
					cs.Ops = append(cs.Ops, c02Op{Kind: "revoke", Cert: 1, KeyComp: rr.Intn(2) == 0})
				} else {
					cs.Ops = append(cs.Ops, c02Op{Kind: "hs", SNI: names[rr.Intn(2)], IssueOK: true})
				}
			}
		}
		cs.Ops = append(cs.Ops, c02Op{Kind: "hs", SNI: names[rr.Intn(2)], IssueOK: true})
		if mgrID > 0 {
			for j := range cs.Ops {
				switch cs.Ops[j].Kind {
				case "hs":
					switch rr.Intn(4) {
					case 0:
						cs.Ops[j].Mgr, cs.Ops[j].Cert = "cert", mgrID
					case 1:
						cs.Ops[j].Mgr = "err"
					}
				case "policy":
					cs.Ops[j].Policy.Mgr = rr.Intn(3) != 0
				}
			}
		}
		for j := range cs.Ops {
			if cs.Ops[j].Kind == "policy" && cs.Ops[j].Policy.OD == "decision" && rr.Intn(2) == 0 {
				cs.Ops[j].Policy.Allow = []string{"foo.example", "bar.example"}
			}
		}
		if err := run(cs, map[string]any{"class": "history", "len": len(cs.Ops)}); err != nil {
			return err
		}
	}

	// ---- SubjectQualifiesForCert against the model, exhaustively over a small alphabet ----
	qalpha := []string{".", "*", "a", " ", "\t", "\r", "!", "é", "\u00a0", "-"}
	maxLen := 4
	if tier == "thorough" {
		maxLen = 5
	}
	enumStrings(qalpha, maxLen, func(s string) { c02QualCase(w, s) })
	for _, s := range snis {
		c02QualCase(w, s)
	}
	for _, c := range "()[]{}<> \t\n\"\\!@#$%^&|;'+=" {
		c02QualCase(w, "a"+string(c)+"b")
	}
	for i := 0; i < 2000; i++ {
		c02QualCase(w, randString(rr, 10))
	}
	// oracle: unicode.IsSpace below 128 is ascii_space (the model's is_space for ASCII)
	hs := true
	for c := rune(0); c < 128; c++ {
		want := (c >= 9 && c <= 13) || c == 32
		if unicode.IsSpace(c) != want {
			hs = false
		}
	}
	w.Meta.Oracles = append(w.Meta.Oracles, emit.OracleCheck{Name: "unicode.IsSpace = ascii_space below 128 (all 128)", OK: hs})

	// ---- LAST (on a tree without fix a768045 the goroutine it leaves behind keeps its registration for
	// 2 minutes and the run ends here): witness of the fixed finding C13-obtain-owner-self-wait. A
	// cached multi-SAN certificate is due and its bundle (under its first name) is gone; the
	// handshake's own name has an old, expired bundle: the storage-missing branch calls
	// obtainOnDemandCertificate, ObtainCertAsync is a no-op (a bundle exists), the expired
	// certificate is loaded and its maintenance (renewDynamicCertificate) finds the obtain channel
	// this goroutine registered itself. Before the fix it waited on it for the 2-minute time-out
	// (and so did every other handshake for the name); now the handshake is answered at once with the
	// cached, still unexpired certificate.
	cs := c02Single(pols["allow-in"], 0, []c02CertSpec{
		{Names: []string{"first.example", N}, Class: "due", Managed: true, Cached: true},
		{Names: []string{N}, Class: "expired", Managed: true, Stored: true}}, N, true)
	return run(cs, map[string]any{"class": "obtain-owner-self-wait", "policy": "allow-in"})
}
