//go:build !skip_c17_e2e

package main

import (
	"context"
	"crypto/ecdsa"
	"crypto/elliptic"
	crand "crypto/rand"
	"crypto/x509"
	"fmt"
	"net/http"
	"net/url"
	"sort"
	"sync"
	"sync/atomic"
	"time"

	"github.com/caddyserver/certmagic"
	"go.uber.org/zap"

	"verifharness/pkg/doubles"
	"verifharness/pkg/emit"
)

// Class "e2e-throttle": "issuance through the ACME issuer on its first attempt is subject to this
// limit per CA and account", end to end. RateLimitEvents / RateLimitEventsWindow (package
// variables, read when the limiter of a CA + account is created) are set to a small limit N and a
// window W; a burst of real ACMEIssuer.Issue calls (first attempts, one account, distinct names)
// is released at instant c0 against a mock ACME CA, together with a few retries (attempts = 1,
// which go to the test CA and are not throttled) and a burst for a second account. Observed AT THE
// CA: the arrival instants of the newOrder requests. Sound monitor: all calls began at or after
// c0, an order arrives after its admission, so the j-th arrival (0-based, per account) is not
// before c0 + (j / N) * W.
type c17E2EPlan struct {
	N        int `json:"rate_limit_events"`
	WindowMs int `json:"window_ms"`
	Calls    int `json:"first_attempts"`
	Retries  int `json:"retries"`
	Calls2   int `json:"first_attempts_second_account"`
}

type c17E2EObs struct {
	Arrivals  []int64 `json:"order_arrivals_ns"`                // production CA, first account, ascending, since c0
	Arrivals2 []int64 `json:"order_arrivals_second_account_ns"` // production CA, second account
	RetryArr  []int64 `json:"retry_order_arrivals_ns"`          // test CA, first account
	Failed    int     `json:"calls_failed"`
	Note      string  `json:"note,omitempty"`
}

var c17E2ESerial atomic.Int64

func c17E2ERound(env *c1719Env, p c17E2EPlan) c17E2EObs {
	var o c17E2EObs
	origN, origW := certmagic.RateLimitEvents, certmagic.RateLimitEventsWindow
	certmagic.RateLimitEvents, certmagic.RateLimitEventsWindow = p.N, time.Duration(p.WindowMs)*time.Millisecond
	defer func() { certmagic.RateLimitEvents, certmagic.RateLimitEventsWindow = origN, origW }()
	id := c17E2ESerial.Add(1)
	tags := []string{fmt.Sprintf("c17e2e-%d-%da", time.Now().UnixNano()%1000000, id), fmt.Sprintf("c17e2e-%d-%db", time.Now().UnixNano()%1000000, id)}
	b := doubles.NewMemBackend()
	cfg, cache := doubles.NewConfig(b.Handle("i"), certmagic.Config{}, certmagic.CacheOptions{})
	defer cache.Stop()
	ctx, cancel := context.WithTimeout(context.Background(), 60*time.Second)
	defer cancel()
	var isss []*certmagic.ACMEIssuer
	for _, tag := range tags {
		iss := certmagic.NewACMEIssuer(cfg, certmagic.ACMEIssuer{CA: env.cas[0].URL, TestCA: env.cas[1].URL, Email: tag + "@example.com", Agreed: true,
			TrustedRoots: env.cas[0].Roots(), Logger: zap.NewNop(), HTTPProxy: func(*http.Request) (*url.URL, error) { return nil, nil }})
		if err := iss.PreCheck(ctx, []string{"c17.example.com"}, false); err != nil {
			o.Note = "PreCheck: " + err.Error()
		}
		// register the accounts at both CAs beforehand (not throttled), so that the burst is orders only
		for _, test := range []bool{false, true} {
			if _, _, err := certmagic.VerifAccountNewACMEClientWithAccount(ctx, iss, test); err != nil {
				o.Note = "account: " + err.Error()
			}
		}
		isss = append(isss, iss)
	}
	type call struct {
		iss      *certmagic.ACMEIssuer
		attempts int
		csr      *x509.CertificateRequest
	}
	var calls []call
	mk := func(iss *certmagic.ACMEIssuer, attempts, n int, tag string) {
		for i := 0; i < n; i++ {
			key, _ := ecdsa.GenerateKey(elliptic.P256(), crand.Reader)
			der, _ := x509.CreateCertificateRequest(crand.Reader, &x509.CertificateRequest{DNSNames: []string{fmt.Sprintf("h%d-%d.%s.example.com", attempts, i, tag)}}, key)
			csr, _ := x509.ParseCertificateRequest(der)
			calls = append(calls, call{iss, attempts, csr})
		}
	}
	mk(isss[0], 0, p.Calls, tags[0])
	mk(isss[0], 1, p.Retries, tags[0])
	mk(isss[1], 0, p.Calls2, tags[1])
	var failed atomic.Int32
	var ready, done sync.WaitGroup
	start := make(chan struct{})
	for _, c := range calls {
		ready.Add(1)
		done.Add(1)
		go func(c call) {
			defer done.Done()
			attempts := c.attempts
			ictx := context.WithValue(ctx, certmagic.AttemptsCtxKey, &attempts)
			ready.Done()
			<-start
			if _, err := c.iss.Issue(ictx, c.csr); err != nil {
				failed.Add(1)
			}
		}(c)
	}
	ready.Wait()
	c0 := time.Now()
	for _, tag := range tags {
		env.register(tag, nil, nil, c0)
	}
	close(start)
	done.Wait()
	o.Failed = int(failed.Load())
	for i, tag := range tags {
		for _, od := range env.orders(tag) {
			switch {
			case i == 0 && od.CA == 0:
				o.Arrivals = append(o.Arrivals, od.AtNs)
			case i == 0:
				o.RetryArr = append(o.RetryArr, od.AtNs)
			case od.CA == 0:
				o.Arrivals2 = append(o.Arrivals2, od.AtNs)
			}
		}
	}
	for _, l := range [][]int64{o.Arrivals, o.Arrivals2, o.RetryArr} {
		sort.Slice(l, func(i, j int) bool { return l[i] < l[j] })
	}
	// stop the limiters of this round's keys (their goroutines would otherwise stay for the run)
	for _, tag := range tags {
		if rl, ok := certmagic.VerifRateLimiterFor(env.cas[0].URL + "," + tag + "@example.com"); ok {
			rl.Stop()
		}
	}
	return o
}

func c17E2EEmit(w *emit.Writer, p c17E2EPlan, o c17E2EObs, idx int) {
	e := &emit.Enc{}
	e.Int(4).Int(p.N).Z(int64(time.Duration(p.WindowMs) * time.Millisecond)).Int(p.Calls).Int(p.Retries).Int(p.Calls2).
		ZList(o.Arrivals).ZList(o.Arrivals2).ZList(o.RetryArr).Int(o.Failed)
	w.Hist("class=e2e-throttle")
	w.Hist(fmt.Sprintf("e2e_throttle: limit=%d window_ms=%d first_attempts=%d", p.N, p.WindowMs, p.Calls))
	w.Hist(fmt.Sprintf("e2e_throttle: windows_spanned=%d", (max(len(o.Arrivals), 1)-1)/max(p.N, 1)+1))
	w.Add(emit.Case{Desc: map[string]any{"class": "e2e-throttle", "rate_limit_events": p.N, "window_ms": p.WindowMs, "first_attempts": p.Calls},
		In: p, Obs: o, Wire: e.String(), Nontrivial: p.Calls > p.N, Key: fmt.Sprintf("e2e-throttle:%d:%d:%d:%d", p.N, p.WindowMs, p.Calls, idx)})
}

func c17E2EPlans(tier string) []c17E2EPlan {
	ps := []c17E2EPlan{
		{N: 1, WindowMs: 150, Calls: 3, Retries: 2, Calls2: 1},
		{N: 2, WindowMs: 200, Calls: 6, Retries: 2, Calls2: 2},
		{N: 3, WindowMs: 250, Calls: 7, Retries: 1, Calls2: 3},
		{N: 2, WindowMs: 300, Calls: 5, Retries: 3, Calls2: 2},
	}
	if tier == "thorough" {
		for i := 0; i < 20; i++ {
			ps = append(ps, c17E2EPlan{N: 1 + i%4, WindowMs: 120 + 40*(i%5), Calls: 2 + (i*3)%9, Retries: i % 3, Calls2: 1 + i%3})
		}
	}
	return ps
}

func c17E2E(w *emit.Writer, plans []c17E2EPlan) {
	env := c1719NewEnv()
	defer env.close()
	for i, p := range plans {
		c17E2EEmit(w, p, c17E2ERound(env, p), i)
	}
}
