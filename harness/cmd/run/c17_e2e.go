//go:build !skip_c17_e2e

package main

import (
	"context"
	"crypto/ecdsa"
	"crypto/elliptic"
	crand "crypto/rand"
	"crypto/x509"
	"fmt"
	"net/http"
	"net/url"
	"sort"
	"strings"
	"sync"
	"sync/atomic"
	"time"

	"github.com/caddyserver/certmagic"
	"go.uber.org/zap"

	"verifharness/pkg/doubles"
	"verifharness/pkg/emit"
)

// Class "e2e-throttle": "issuance through the ACME issuer on its first attempt is subject to this
// limit per CA and account", end to end. RateLimitEvents / RateLimitEventsWindow (package
// variables, read when the limiter of a CA + account is created) are set to a small limit N and a
// window W. For each issuer configuration {TestCA another directory, TestCA = CA (e.g. a staging
// endpoint configured as the main CA), TestCA empty} a burst of real ACMEIssuer.Issue calls is
// released at instant c0 against the mock ACME CAs: first attempts (attempts = 0) and retries
// (attempts = 1 through AttemptsCtxKey) for one account, first attempts for a second account.
// Observed AT THE CA: the arrival instants of the newOrder requests, attributed to their calls by
// the identifiers in the CA's log. Sound monitor: all calls began at or after c0 and an order
// arrives after its admission, so the j-th order arrival of the first attempts of one account
// (0-based) is not before c0 + (j / N) * W - in every configuration.
type c17E2EPlan struct {
	// issuer configuration: TestCA "distinct" (the test mock CA), "same" (the same directory URL as
	// CA, e.g. a staging endpoint configured as the main CA) or "none" (empty)
	TestCA   string `json:"test_ca"`
	N        int `json:"rate_limit_events"`
	WindowMs int `json:"window_ms"`
	Calls    int `json:"first_attempts"`
	Retries  int `json:"retries"`
	Calls2   int `json:"first_attempts_second_account"`
}

type c17E2EObs struct {
	FirstArr  []int64 `json:"first_attempt_order_arrivals_ns"`  // CA, first account, orders of the first attempts (by name), ascending, since c0
	Arrivals  []int64 `json:"limited_order_arrivals_ns"`        // + the production orders that follow a test-CA success of a retry (TestCA distinct)
	Arrivals2 []int64 `json:"order_arrivals_second_account_ns"` // CA, second account (first attempts only)
	RetryArr  []int64 `json:"retry_order_arrivals_ns"`          // first order of each retry: test CA (distinct) or the CA itself (same / none)
	Failed    int     `json:"calls_failed"`
	Note      string  `json:"note,omitempty"`
}

var c17E2ESerial atomic.Int64

func c17E2ERound(env *c1719Env, p c17E2EPlan) c17E2EObs {
	var o c17E2EObs
	origN, origW := certmagic.RateLimitEvents, certmagic.RateLimitEventsWindow
	certmagic.RateLimitEvents, certmagic.RateLimitEventsWindow = p.N, time.Duration(p.WindowMs)*time.Millisecond
	defer func() { certmagic.RateLimitEvents, certmagic.RateLimitEventsWindow = origN, origW }()
	id := c17E2ESerial.Add(1)
	tags := []string{fmt.Sprintf("c17e2e-%d-%da", time.Now().UnixNano()%1000000, id), fmt.Sprintf("c17e2e-%d-%db", time.Now().UnixNano()%1000000, id)}
	b := doubles.NewMemBackend()
	cfg, cache := doubles.NewConfig(b.Handle("i"), certmagic.Config{}, certmagic.CacheOptions{})
	defer cache.Stop()
	ctx, cancel := context.WithTimeout(context.Background(), 60*time.Second)
	defer cancel()
	var isss []*certmagic.ACMEIssuer
	for _, tag := range tags {
		tmpl := certmagic.ACMEIssuer{CA: env.cas[0].URL, Email: tag + "@example.com", Agreed: true,
			TrustedRoots: env.cas[0].Roots(), Logger: zap.NewNop(), HTTPProxy: func(*http.Request) (*url.URL, error) { return nil, nil }}
		switch p.TestCA {
		case "distinct":
			tmpl.TestCA = env.cas[1].URL
		case "same":
			tmpl.TestCA = env.cas[0].URL
		}
		iss := certmagic.NewACMEIssuer(cfg, tmpl)
		if err := iss.PreCheck(ctx, []string{"c17.example.com"}, false); err != nil {
			o.Note = "PreCheck: " + err.Error()
		}
		// register the accounts at both CAs beforehand (not throttled), so that the burst is orders only
		for _, test := range []bool{false, p.TestCA == "distinct"} {
			if _, _, err := certmagic.VerifAccountNewACMEClientWithAccount(ctx, iss, test); err != nil {
				o.Note = "account: " + err.Error()
			}
		}
		isss = append(isss, iss)
	}
	type call struct {
		iss      *certmagic.ACMEIssuer
		attempts int
		csr      *x509.CertificateRequest
	}
	var calls []call
	mk := func(iss *certmagic.ACMEIssuer, attempts, n int, tag string) {
		for i := 0; i < n; i++ {
			key, _ := ecdsa.GenerateKey(elliptic.P256(), crand.Reader)
			der, _ := x509.CreateCertificateRequest(crand.Reader, &x509.CertificateRequest{DNSNames: []string{fmt.Sprintf("h%d-%d.%s.example.com", attempts, i, tag)}}, key)
			csr, _ := x509.ParseCertificateRequest(der)
			calls = append(calls, call{iss, attempts, csr})
		}
	}
	mk(isss[0], 0, p.Calls, tags[0])
	mk(isss[0], 1, p.Retries, tags[0])
	mk(isss[1], 0, p.Calls2, tags[1])
	var failed atomic.Int32
	var ready, done sync.WaitGroup
	start := make(chan struct{})
	for _, c := range calls {
		ready.Add(1)
		done.Add(1)
		go func(c call) {
			defer done.Done()
			attempts := c.attempts
			ictx := context.WithValue(ctx, certmagic.AttemptsCtxKey, &attempts)
			ready.Done()
			<-start
			if _, err := c.iss.Issue(ictx, c.csr); err != nil {
				failed.Add(1)
			}
		}(c)
	}
	ready.Wait()
	c0 := time.Now()
	for _, tag := range tags {
		env.register(tag, nil, nil, c0)
	}
	close(start)
	done.Wait()
	o.Failed = int(failed.Load())
	// which order belongs to which call is read off the identifiers in the CA's log: names of first
	// attempts begin with "h0-", names of retries with "h1-"
	isRetry := func(od c1719Order) bool { return len(od.Names) > 0 && strings.HasPrefix(od.Names[0], "h1-") }
	for i, tag := range tags {
		retrySeen := map[string]bool{}
		for _, od := range env.ordersWithNames(tag) {
			switch {
			case i == 1:
				if od.CA == 0 {
					o.Arrivals2 = append(o.Arrivals2, od.AtNs)
				}
			case !isRetry(od):
				o.FirstArr = append(o.FirstArr, od.AtNs)
				o.Arrivals = append(o.Arrivals, od.AtNs)
			case !retrySeen[od.Names[0]]:
				retrySeen[od.Names[0]] = true
				o.RetryArr = append(o.RetryArr, od.AtNs)
			default: // the production order after the retry's success at the test CA
				o.Arrivals = append(o.Arrivals, od.AtNs)
			}
		}
	}
	for _, l := range [][]int64{o.FirstArr, o.Arrivals, o.Arrivals2, o.RetryArr} {
		sort.Slice(l, func(i, j int) bool { return l[i] < l[j] })
	}
	// stop the limiters of this round's keys (their goroutines would otherwise stay for the run)
	for _, tag := range tags {
		if rl, ok := certmagic.VerifRateLimiterFor(env.cas[0].URL + "," + tag + "@example.com"); ok {
			rl.Stop()
		}
	}
	return o
}

func c17E2EEmit(w *emit.Writer, p c17E2EPlan, o c17E2EObs, idx int) {
	e := &emit.Enc{}
	e.Int(4).Int(map[string]int{"distinct": 0, "same": 1, "none": 2}[p.TestCA]).Int(p.N).Z(int64(time.Duration(p.WindowMs) * time.Millisecond)).
		Int(p.Calls).Int(p.Retries).Int(p.Calls2).
		ZList(o.FirstArr).ZList(o.Arrivals).ZList(o.Arrivals2).ZList(o.RetryArr).Int(o.Failed)
	w.Hist("class=e2e-throttle")
	w.Hist(fmt.Sprintf("e2e_throttle: test_ca=%s limit=%d window_ms=%d first_attempts=%d retries=%d", p.TestCA, p.N, p.WindowMs, p.Calls, p.Retries))
	w.Hist(fmt.Sprintf("e2e_throttle: windows_spanned=%d", (max(len(o.Arrivals), 1)-1)/max(p.N, 1)+1))
	w.Add(emit.Case{Desc: map[string]any{"class": "e2e-throttle", "test_ca": p.TestCA, "rate_limit_events": p.N, "window_ms": p.WindowMs, "first_attempts": p.Calls},
		In: p, Obs: o, Wire: e.String(), Nontrivial: p.Calls > p.N, Key: fmt.Sprintf("e2e-throttle:%s:%d:%d:%d:%d", p.TestCA, p.N, p.WindowMs, p.Calls, idx)})
}

func c17E2EPlans(tier string) []c17E2EPlan {
	// issuer configurations {TestCA empty, TestCA != CA, TestCA == CA} x {first attempts, retries}
	ps := []c17E2EPlan{
		{TestCA: "same", N: 1, WindowMs: 150, Calls: 3, Retries: 2, Calls2: 1},
		{TestCA: "distinct", N: 2, WindowMs: 200, Calls: 6, Retries: 2, Calls2: 2},
		{TestCA: "none", N: 2, WindowMs: 200, Calls: 5, Retries: 2, Calls2: 2},
		{TestCA: "same", N: 3, WindowMs: 250, Calls: 7, Retries: 1, Calls2: 3},
		{TestCA: "distinct", N: 2, WindowMs: 300, Calls: 5, Retries: 3, Calls2: 2},
		{TestCA: "none", N: 1, WindowMs: 150, Calls: 3, Retries: 0, Calls2: 1},
	}
	if tier == "thorough" {
		for i := 0; i < 24; i++ {
			ps = append(ps, c17E2EPlan{TestCA: []string{"same", "distinct", "none"}[i%3], N: 1 + i%4, WindowMs: 120 + 40*(i%5), Calls: 2 + (i*3)%9, Retries: i % 3, Calls2: 1 + i%3})
		}
	}
	return ps
}

func c17E2E(w *emit.Writer, plans []c17E2EPlan) {
	env := c1719NewEnv()
	defer env.close()
	for i, p := range plans {
		if c17ThrottleStuck.Load() {
			// Issue would block on rateLimitersMu without honouring its context
			w.Hist("e2e_throttle: skipped_throttle_is_stuck")
			return
		}
		c17E2EEmit(w, p, c17E2ERound(env, p), i)
	}
}
