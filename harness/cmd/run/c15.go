//go:build !skip_c15

package main

// C15 — challenge material goes only to the matching validation request, on any node.
//
// Challenge state is created by calling Present / CleanUp on the real solver stacks that
// ACMEIssuer.newACMEClient builds (solverWrapper{distributedSolver{httpSolver|tlsALPNSolver}},
// real listeners on a private loopback address); "another instance" is a distributedSolver on a
// second handle of the same storage (its process memory is not visible here, so only its
// storage effect exists). Requests go through ACMEIssuer.HTTPChallengeHandler (httptest) and
// synthetic ClientHellos through Config.GetCertificate.

import (
	"context"
	"crypto/sha256"
	"crypto/x509"
	"encoding/asn1"
	"encoding/json"
	"errors"
	"fmt"
	"io"
	"log"
	"math/rand"
	"net"
	"net/http"
	"net/http/httptest"
	"net/url"
	"os"
	"strings"
	"sync"
	"time"
	"unicode"

	"github.com/caddyserver/certmagic"
	"github.com/mholt/acmez/v3"
	"github.com/mholt/acmez/v3/acme"
	"go.uber.org/zap"

	"verifharness/pkg/doubles"
	"verifharness/pkg/emit"
)

func init() { register("C15", runC15) }

type c15Chal struct {
	Type    string `json:"type"` // http-01 | tls-alpn-01 | dns-01
	Token   string `json:"token"`
	KeyAuth string `json:"keyauth"`
	IDType  string `json:"idtype"` // dns | ip
	Ident   string `json:"ident"`
}

type c15Op struct {
	Kind   string `json:"kind"`            // present | clean | tamper | ask
	Place  string `json:"place,omitempty"` // local | remote | mem
	J      int    `json:"j"`               // index of the issuer in Config.Issuers
	TestCA bool   `json:"testca,omitempty"`
	C      int    `json:"c"`              // index into Chals
	Name   string `json:"name,omitempty"` // tamper: identifier whose token file is hit
	V      string `json:"v,omitempty"`    // tamper: delete | corrupt | empty
	// clean: the embedded solver's CleanUp reports an error although it did its work (local/remote:
	// the token file is deleted but the storage reports a failure, as when the acknowledgement of a
	// networked delete is lost; mem: the wrapped solver's CleanUp fails). The challenge is no longer
	// pending all the same: the state is "cleaned" and nothing may be answered.
	Fault bool `json:"fault,omitempty"`
	// present (local): the context of the call is cancelled as soon as it has returned (the order that
	// made it is over — or was an on-demand order tied to a handshake); clean: it is cancelled already
	Cancel bool `json:"cancel,omitempty"`
	// ask: a request served by this process in the middle of the history (its answer is not
	// recorded; what matters is that answering must not change what later requests get)
	Q *c15Query `json:"q,omitempty"`
}

type c15Query struct {
	Kind      string   `json:"kind"` // http | hello
	Disabled  bool     `json:"disabled,omitempty"`
	LoadFault bool     `json:"load_fault,omitempty"`
	Method    string   `json:"method,omitempty"`
	Target    string   `json:"target,omitempty"`
	Host      string   `json:"host,omitempty"`
	SNI       string   `json:"sni,omitempty"`
	Protos    []string `json:"protos,omitempty"`
	// Via "listener": the request is sent over TCP to the HTTP challenge listener that the local
	// solver opened (instead of calling the handler through httptest)
	Via string `json:"via,omitempty"`
}

type c15In struct {
	Chals []c15Chal `json:"chals"`
	Ops   []c15Op   `json:"ops"`
	Query c15Query  `json:"query"`
	E2E   *c15E2E   `json:"e2e,omitempty"` // the case comes from a real order questioned at another node (c15_e2e.go)
}

func (c c15Chal) acme() acme.Challenge {
	return acme.Challenge{Type: c.Type, URL: "https://ca.test/chal/" + c.Token, Status: "pending", Token: c.Token,
		KeyAuthorization: c.KeyAuth, Identifier: acme.Identifier{Type: c.IDType, Value: c.Ident}}
}

type c15Env struct {
	backend  *doubles.MemBackend
	cfgB     *certmagic.Config
	issA     []*certmagic.ACMEIssuer
	issB     []*certmagic.ACMEIssuer
	issDis   *certmagic.ACMEIssuer
	handleA  certmagic.Storage
	appLeaf  []byte
	stopAll  func()
	loadFail bool
	cleanFault bool // a Delete of a token file is applied but reports an error
	own      c15OwnAnswers
	honour   bool // the storage honours context cancellation during the current scenario
	host     string
}

// c15LoopbackHost picks a private 127/8 address for this process, so that concurrently running
// harnesses never compete for a port.
func c15LoopbackHost() string {
	p := os.Getpid()
	return fmt.Sprintf("127.%d.%d.%d", 16+(p>>16)%200, (p>>8)&255, 1+p%250)
}

var c15PortRand = rand.New(rand.NewSource(int64(os.Getpid())*7919 + 17))

// c15FreePort picks a port on host that is free right now, below the kernel's ephemeral range
// (32768-60999 here), so that no other process's bind to port 0 can take it in the meantime.
var (
	c15PortMu   sync.Mutex
	c15PortUsed = map[int]bool{} // never hand out the same port twice in one process: two "free" addresses of one history must differ
)

func c15FreePort(host string) int {
	c15PortMu.Lock()
	defer c15PortMu.Unlock()
	if len(c15PortUsed) > 8000 { // ports handed out long ago have been released by now
		c15PortUsed = map[int]bool{}
	}
	for try := 0; try < 400; try++ {
		p := 20000 + c15PortRand.Intn(12000)
		if c15PortUsed[p] {
			continue
		}
		c15PortUsed[p] = true
		ln, err := net.Listen("tcp", fmt.Sprintf("%s:%d", host, p))
		if err != nil {
			continue
		}
		ln.Close()
		return p
	}
	panic("no free port on " + host)
}

// the CA directory URLs of the two configured issuers
var c15CAs = []string{"https://ca-one.test/dir", "https://ca-two.test/acme/directory"}

func c15NewEnv() (*c15Env, error) {
	log.SetOutput(io.Discard) // the solvers' servers log handshake errors of probes
	e := &c15Env{backend: doubles.NewMemBackend(), host: c15LoopbackHost()}
	e.backend.Log.Hook = func(op *doubles.Op) error {
		if e.loadFail && op.Kind == "Load" && strings.Contains(op.Key, "challenge_tokens") {
			return errors.New("injected storage read failure")
		}
		if e.cleanFault && op.Kind == "Delete" && strings.Contains(op.Key, "challenge_tokens") {
			e.backend.Remove(op.Key) // the delete is applied, its acknowledgement is lost
			return errors.New("injected: delete applied, acknowledgement lost")
		}
		return nil
	}
	mk := func(inst string) (*certmagic.Config, []*certmagic.ACMEIssuer, *certmagic.Cache, certmagic.Storage) {
		st := doubles.NilCtxStorage{S: e.backend.Handle(inst)}
		cfg, cache := doubles.NewConfig(st, certmagic.Config{DefaultServerName: "app.example", FallbackServerName: "app.example"}, certmagic.CacheOptions{})
		i0 := certmagic.NewACMEIssuer(cfg, certmagic.ACMEIssuer{CA: c15CAs[0], TestCA: "https://staging.ca-one.test/dir", Email: "x@example.com", Agreed: true, Logger: zap.NewNop(),
			ListenHost: e.host, AltHTTPPort: c15FreePort(e.host), AltTLSALPNPort: c15FreePort(e.host)})
		i1 := certmagic.NewACMEIssuer(cfg, certmagic.ACMEIssuer{CA: c15CAs[1], TestCA: "https://ca-two.test/acme/directory", Email: "x@example.com", Agreed: true, Logger: zap.NewNop(),
			ListenHost: e.host, AltHTTPPort: c15FreePort(e.host), AltTLSALPNPort: c15FreePort(e.host)})
		cfg.Issuers = []certmagic.Issuer{i0, i1}
		return cfg, []*certmagic.ACMEIssuer{i0, i1}, cache, st
	}
	_, issA, cacheA, stA := mk("A")
	cfgB, issB, cacheB, _ := mk("B")
	e.cfgB, e.issA, e.issB, e.handleA = cfgB, issA, issB, stA
	e.own.issuerKey(issB[0], c15CAs[0])
	e.own.issuerKey(issB[1], c15CAs[1])
	e.issDis = certmagic.NewACMEIssuer(cfgB, certmagic.ACMEIssuer{CA: "https://ca-one.test/dir", DisableHTTPChallenge: true, Logger: zap.NewNop()})
	ca := doubles.NewCA("C15 application CA")
	chain, leaf, key, err := ca.Leaf(doubles.LeafOpts{Names: []string{"app.example"}})
	if err != nil {
		return nil, err
	}
	if _, err := cfgB.CacheUnmanagedCertificatePEMBytes(context.Background(), chain, key, nil); err != nil {
		return nil, err
	}
	e.appLeaf = leaf.Raw
	e.stopAll = func() { cacheA.Stop(); cacheB.Stop() }
	return e, nil
}

// solverFor returns the solver on which op is executed.
func (e *c15Env) solverFor(op c15Op, ch c15Chal) (acmez.Solver, error) {
	switch op.Place {
	case "mem":
		if op.Kind == "clean" && op.Fault {
			return certmagic.VerifSolverWrapper(&doubles.NoopSolver{FailCleanUp: errors.New("injected clean-up failure")}), nil
		}
		return certmagic.VerifSolverWrapper(&doubles.NoopSolver{}), nil
	case "local":
		m, err := certmagic.VerifChallengeSolvers(e.issB[op.J], op.TestCA)
		if err != nil {
			return nil, err
		}
		s := m[ch.Type]
		if s == nil {
			return nil, fmt.Errorf("no solver for %s", ch.Type)
		}
		return s, nil
	case "remote":
		m, err := certmagic.VerifChallengeSolvers(e.issA[op.J], op.TestCA)
		if err != nil {
			return nil, err
		}
		s := m[ch.Type]
		if s == nil {
			return nil, fmt.Errorf("no solver for %s", ch.Type)
		}
		d := certmagic.VerifDescribeSolver(s)
		if !d.Wrapped || !d.Distributed {
			return nil, fmt.Errorf("unexpected solver layering %+v", d)
		}
		// what the other instance's stack does to the shared storage (its memory and listener
		// live in another process)
		return certmagic.VerifDistributedSolver(e.handleA, d.Prefix, &doubles.NoopSolver{}), nil
	}
	return nil, fmt.Errorf("bad place %q", op.Place)
}

func (e *c15Env) tokenKeys() []string {
	var out []string
	for _, k := range e.backend.Keys() {
		if strings.Contains(k, "challenge_tokens") {
			out = append(out, k)
		}
	}
	return out
}

func (e *c15Env) apply(in *c15In, op c15Op) error {
	ctx := context.Background()
	switch op.Kind {
	case "present", "clean":
		ch := in.Chals[op.C]
		s, err := e.solverFor(op, ch)
		if err != nil {
			return err
		}
		if op.Cancel {
			cctx, cancel := context.WithCancel(ctx)
			if op.Kind == "clean" {
				cancel()
			} else {
				defer cancel()
			}
			ctx = cctx
		}
		if op.Kind == "present" {
			return s.Present(ctx, ch.acme())
		}
		if op.Fault {
			// acmez only logs a clean-up error; so do we (whether the error surfaces is not the point)
			e.cleanFault = true
			_ = s.CleanUp(ctx, ch.acme())
			e.cleanFault = false
			return nil
		}
		return s.CleanUp(ctx, ch.acme())
	case "ask":
		if op.Q == nil {
			return fmt.Errorf("ask without a request")
		}
		e.query(in, *op.Q) // unparsable targets are simply not delivered
		return nil
	case "tamper":
		// the file is located independently of the code under test (c15_indep.go)
		key := c15TokensKey(c15IssuerKeyOf(c15CAs[op.J]), op.Name)
		e.own.tokensKey(c15IssuerKeyOf(c15CAs[op.J]), op.Name)
		switch op.V {
		case "delete":
			e.backend.Remove(key)
		case "corrupt":
			e.backend.Put(key, []byte("{corrupt"))
		case "empty":
			e.backend.Put(key, []byte{})
		}
		return nil
	}
	return fmt.Errorf("bad op %q", op.Kind)
}

// reset removes whatever the scenario left behind (pending challenges, tampered files).
func (e *c15Env) reset(in *c15In) error {
	var pend []c15Op
	for _, op := range in.Ops {
		switch op.Kind {
		case "present":
			pend = append(pend, op)
		case "clean":
			for i, p := range pend {
				if p.Place == op.Place && p.J == op.J && p.C == op.C {
					pend = append(pend[:i], pend[i+1:]...)
					break
				}
			}
		}
	}
	for _, op := range pend {
		op.Kind = "clean"
		if err := e.apply(in, op); err != nil {
			return err
		}
	}
	for _, k := range e.tokenKeys() {
		e.backend.Remove(k)
	}
	// leftovers (a clean-up that did not clean) are not an error of the harness: they show up in
	// the next scenarios' snapshots and answers, where the specification judges them
	return nil
}

var c15OIDACMEIdentifier = asn1.ObjectIdentifier{1, 3, 6, 1, 5, 5, 7, 1, 31}

type c15Obs struct {
	Handled    bool     `json:"handled,omitempty"`
	Body       string   `json:"body,omitempty"`
	Status     int      `json:"status,omitempty"`
	Class      string   `json:"class,omitempty"` // hello: challenge-cert | challenge-error | normal | unknown
	CertNames  []string `json:"cert_names,omitempty"`
	KeyAuthOf  int      `json:"keyauth_of"` // hello: index of the challenge whose key authorization the certificate carries, -1
	Err        string   `json:"err,omitempty"`
	MemKeys    []string `json:"mem"`
	StoreKeys  []string `json:"store"`
	WrappedRan bool     `json:"wrapped_ran,omitempty"`
}

func (e *c15Env) query(in *c15In, q c15Query) (c15Obs, *url.URL, error) {
	var o c15Obs
	o.KeyAuthOf = -1
	e.loadFail = q.LoadFault
	defer func() { e.loadFail = false }()
	switch q.Kind {
	case "http":
		u, err := url.ParseRequestURI(q.Target)
		if err != nil {
			return o, nil, err
		}
		if q.Via == "listener" {
			// over the network, through the listener of the local issuer's HTTP solver (its wrapped
			// handler is an empty ServeMux: "404 page not found")
			rq, err := http.NewRequest(q.Method, fmt.Sprintf("http://%s:%d%s", e.host, e.issB[0].AltHTTPPort, q.Target), nil)
			if err != nil {
				return o, nil, err
			}
			rq.Host = q.Host
			resp, err := (&http.Client{Timeout: 10 * time.Second, Transport: &http.Transport{DisableKeepAlives: true, Proxy: nil}}).Do(rq)
			if err != nil {
				o.Handled, o.Body = true, "!network error: "+err.Error() // agrees with nothing
				return o, u, nil
			}
			b, _ := io.ReadAll(io.LimitReader(resp.Body, 4096))
			resp.Body.Close()
			o.Status, o.Body = resp.StatusCode, string(b)
			o.WrappedRan = resp.StatusCode == 404 && strings.HasPrefix(o.Body, "404 page not found")
			o.Handled = !o.WrappedRan
			if o.Handled && (resp.StatusCode != 200 || !strings.HasPrefix(resp.Header.Get("Content-Type"), "text/plain")) {
				o.Body = fmt.Sprintf("!status=%d ct=%s:", resp.StatusCode, resp.Header.Get("Content-Type")) + o.Body
			}
			return o, u, nil
		}
		ran := false
		wrapped := http.HandlerFunc(func(w http.ResponseWriter, r *http.Request) { ran = true; w.Write([]byte("APP")) })
		iss := e.issB[0]
		if q.Disabled {
			iss = e.issDis
		}
		req := (&http.Request{Method: q.Method, URL: u, Host: q.Host, Header: http.Header{}, Proto: "HTTP/1.1", ProtoMajor: 1, ProtoMinor: 1,
			RemoteAddr: "192.0.2.99:4711", RequestURI: q.Target}).WithContext(context.Background())
		rec := httptest.NewRecorder()
		iss.HTTPChallengeHandler(wrapped).ServeHTTP(rec, req)
		o.WrappedRan, o.Status, o.Body = ran, rec.Code, rec.Body.String()
		o.Handled = !ran
		if ran && o.Body != "APP" {
			o.Handled, o.Body = true, "!both:"+o.Body // challenge handler wrote AND passed on: agrees with nothing
		}
		if o.Handled && !ran && (rec.Code != 200 || !strings.HasPrefix(rec.Header().Get("Content-Type"), "text/plain")) {
			o.Body = fmt.Sprintf("!status=%d ct=%s:", rec.Code, rec.Header().Get("Content-Type")) + o.Body
		}
		return o, u, nil
	case "hello":
		hello, done := doubles.Hello(q.SNI, q.Protos...)
		defer done()
		cert, err := e.cfgB.GetCertificate(hello)
		switch {
		case err != nil:
			o.Err = err.Error()
			o.Class = "normal"
			for _, m := range []string{"no information found to solve challenge", "opening distributed challenge token file", "decoding challenge token file", "making TLS-ALPN challenge certificate"} {
				if strings.Contains(o.Err, m) {
					o.Class = "challenge-error"
				}
			}
		case cert == nil || len(cert.Certificate) == 0:
			o.Class = "unknown"
		default:
			leaf, perr := x509.ParseCertificate(cert.Certificate[0])
			if perr != nil {
				o.Class = "unknown"
				break
			}
			o.CertNames = leaf.DNSNames
			var digest []byte
			for _, ext := range leaf.Extensions {
				if ext.Id.Equal(c15OIDACMEIdentifier) {
					asn1.Unmarshal(ext.Value, &digest)
					if digest == nil {
						digest = []byte{}
					}
				}
			}
			if digest == nil {
				o.Class = "normal"
				if string(leaf.Raw) != string(e.appLeaf) {
					o.Class = "unknown"
				}
				break
			}
			o.Class = "challenge-cert"
			for i, c := range in.Chals {
				h := sha256.Sum256([]byte(c.KeyAuth))
				if string(h[:]) == string(digest) && len(leaf.DNSNames) == 1 && strings.EqualFold(leaf.DNSNames[0], c.Ident) {
					o.KeyAuthOf = i
				}
			}
		}
		return o, nil, nil
	}
	return o, nil, fmt.Errorf("bad query kind %q", q.Kind)
}

// c15EncIP sends the identifier's address bytes (nil: not an IP literal); the model builds the
// reverse-mapping name itself (Challenge.Model.rev_name).
func c15EncIP(e *emit.Enc, ident string) {
	b := c15IPBytes(ident)
	if b == nil {
		e.Bool(false)
		return
	}
	e.Bool(true).Len(len(b))
	for _, x := range b {
		e.Z(int64(x))
	}
}

func c15EncChal(e *emit.Enc, c c15Chal) {
	t := map[string]int{"http-01": 0, "tls-alpn-01": 1, "dns-01": 2}
	ty, ok := t[c.Type]
	if !ok {
		ty = 3
	}
	e.Int(ty).Str(c.Token).Str(c.KeyAuth).Bool(c.IDType == "ip").Str(c.Ident)
	c15EncIP(e, c.Ident)
}

// c15Tables: ToLower / IsSpace of the non-ASCII code points in strs, and the fold-equal pairs
// between request strings and challenge strings.
func c15Tables(e *emit.Enc, strs []string, reqStrs []string, chalStrs []string) {
	seen := map[rune]bool{}
	var lt [][2]rune
	var st []rune
	for _, a := range strs {
		for _, r := range a {
			if r >= 128 && !seen[r] {
				seen[r] = true
				lt = append(lt, [2]rune{r, unicode.ToLower(r)})
				if unicode.IsSpace(r) {
					st = append(st, r)
				}
			}
		}
	}
	e.Len(len(lt))
	for _, p := range lt {
		e.Z(int64(p[0])).Z(int64(p[1]))
	}
	e.Len(len(st))
	for _, r := range st {
		e.Z(int64(r))
	}
	var ft [][2]rune
	seenP := map[[2]rune]bool{}
	for _, a := range reqStrs {
		for _, x := range a {
			for _, b := range chalStrs {
				for _, y := range b {
					if (x >= 128 || y >= 128) && x != y && !seenP[[2]rune{x, y}] && strings.EqualFold(string(x), string(y)) {
						seenP[[2]rune{x, y}] = true
						ft = append(ft, [2]rune{x, y})
					}
				}
			}
		}
	}
	e.Len(len(ft))
	for _, p := range ft {
		e.Z(int64(p[0])).Z(int64(p[1]))
	}
}

// c15Wire encodes one case: tables, issuer keys, history, observed memory / token keys, the
// request and what it got.
func c15Wire(own *c15OwnAnswers, issKeys []string, chals []c15Chal, ops []c15Op, memObs [][2]any, storeObs []string, q c15Query, u *url.URL, obs c15Obs) *emit.Enc {
	upath := ""
	if u != nil {
		upath = u.Path
	}
	enc := &emit.Enc{}
	strs := append([]string{}, issKeys...)
	var chalStrs []string
	for _, c := range chals {
		k := c15KeyOf(c.acme())
		own.chal(c.acme())
		strs = append(strs, c.Ident, k)
		chalStrs = append(chalStrs, c.Ident, k)
	}
	for _, op := range ops {
		strs = append(strs, op.Name)
	}
	var reqStrs []string
	if q.Kind == "http" {
		reqStrs = []string{q.Host}
	} else {
		reqStrs = []string{q.SNI}
	}
	strs = append(strs, reqStrs...)
	c15Tables(enc, strs, reqStrs, chalStrs)
	enc.StrList(issKeys)
	enc.Len(len(ops))
	for _, op := range ops {
		pl := map[string]int{"local": 0, "remote": 1, "mem": 2}[op.Place]
		switch op.Kind {
		case "present":
			enc.Int(0).Int(pl).Int(op.J)
			c15EncChal(enc, chals[op.C])
		case "clean":
			enc.Int(1).Int(pl).Int(op.J)
			c15EncChal(enc, chals[op.C])
		case "tamper":
			enc.Int(2).Int(op.J).Str(op.Name).Int(map[string]int{"delete": 0, "corrupt": 1, "empty": 2}[op.V])
		case "ask":
			enc.Int(3)
		}
	}
	enc.Len(len(memObs))
	for _, m := range memObs {
		enc.Str(m[0].(string)).Bool(m[1].(bool))
	}
	enc.StrList(storeObs)
	if q.Kind == "http" {
		enc.Int(0).Bool(q.Disabled).Bool(q.LoadFault).Str(q.Method).Str(upath).Str(q.Host)
		if obs.Handled {
			b := obs.Body
			enc.OptStr(&b)
		} else {
			enc.OptStr(nil)
		}
	} else {
		enc.Int(1).Bool(q.LoadFault).Str(q.SNI).StrList(q.Protos)
		switch obs.Class {
		case "challenge-cert":
			enc.Int(0)
			if obs.KeyAuthOf >= 0 {
				enc.Bool(true)
				c15EncChal(enc, chals[obs.KeyAuthOf])
			} else {
				enc.Bool(false)
			}
		case "challenge-error":
			enc.Int(1).Bool(false)
		case "normal":
			enc.Int(2).Bool(false)
		default:
			enc.Int(9).Bool(false)
		}
	}
	return enc
}

type c15Runner struct {
	env *c15Env
	w   *emit.Writer
}

// runScenario executes the ops on the real solvers and then every query; one case per query.
func (r *c15Runner) runScenario(chals []c15Chal, ops []c15Op, queries []c15Query, descs []map[string]any) error {
	e := r.env
	in0 := &c15In{Chals: chals, Ops: ops}
	// a history with cancelled contexts runs on a storage that honours cancellation
	e.backend.HonourCtx = false
	for _, op := range ops {
		e.backend.HonourCtx = e.backend.HonourCtx || op.Cancel
	}
	defer func() { e.backend.HonourCtx = false }()
	// what an earlier scenario left behind (only if a clean-up did not clean) is not this
	// scenario's state: identifiers are unique per scenario, so it cannot be found by its requests
	preMem := map[string]bool{}
	for _, m := range certmagic.VerifActiveChallenges() {
		preMem[m.Key] = true
	}
	for i, op := range ops {
		if err := e.apply(in0, op); err != nil {
			return fmt.Errorf("op %d %+v: %v", i, op, err)
		}
	}
	var memObs []certmagic.VerifActiveChallenge
	for _, m := range certmagic.VerifActiveChallenges() {
		if !preMem[m.Key] {
			memObs = append(memObs, m)
		}
	}
	storeObs := e.tokenKeys()
	issKeys := []string{c15IssuerKeyOf(c15CAs[0]), c15IssuerKeyOf(c15CAs[1])}
	for qi, q := range queries {
		in := c15In{Chals: chals, Ops: ops, Query: q}
		obs, u, err := e.query(&in, q)
		if err != nil {
			continue // unparsable target: not a request a server would deliver
		}
		for _, m := range memObs {
			obs.MemKeys = append(obs.MemKeys, m.Key)
		}
		obs.StoreKeys = storeObs
		memKH := make([][2]any, 0, len(memObs))
		for _, m := range memObs {
			memKH = append(memKH, [2]any{m.Key, m.HasData})
		}
		enc := c15Wire(&e.own, issKeys, chals, ops, memKH, storeObs, q, u, obs)
		desc := map[string]any{}
		for k, v := range descs[qi] {
			desc[k] = v
			if s, ok := v.(string); ok {
				r.w.Hist(k + "=" + s)
			}
		}
		answered := (q.Kind == "http" && obs.Handled) || obs.Class == "challenge-cert"
		desc["answered"] = answered
		r.w.Hist(fmt.Sprintf("%s_answered=%v", q.Kind, answered))
		r.w.Hist(fmt.Sprintf("ops=%d", len(ops)))
		r.w.Add(emit.Case{Desc: desc, In: in, Obs: obs, Wire: enc.String(), Nontrivial: len(ops) > 0 && desc["targets"] != "unknown"})
	}
	return e.reset(in0)
}

// ---------------------------------------------------------------- generators

var c15Base = "/.well-known/acme-challenge"

func c15Token(r *rand.Rand) string {
	const al = "ABCDEFGHIJKLMNOPQRSTUVWXYZabcdefghijklmnopqrstuvwxyz0123456789-_"
	b := make([]byte, 12+r.Intn(20))
	for i := range b {
		b[i] = al[r.Intn(len(al))]
	}
	return string(b)
}

func c15NewChal(r *rand.Rand, typ, ident string) c15Chal {
	t := c15Token(r)
	idt := "dns"
	if net.ParseIP(ident) != nil {
		idt = "ip"
	}
	return c15Chal{Type: typ, Token: t, KeyAuth: t + "." + c15Token(r), IDType: idt, Ident: ident}
}

type c15Variant struct{ name, val string }

func c15SwapCase(s string) string {
	return strings.Map(func(r rune) rune {
		if unicode.IsUpper(r) {
			return unicode.ToLower(r)
		}
		return unicode.ToUpper(r)
	}, s)
}

func c15HostVariants(id string) []c15Variant {
	v := []c15Variant{{"exact", id}, {"swapcase", c15SwapCase(id)}, {"port80", net.JoinHostPort(id, "80")}, {"port8080", net.JoinHostPort(id, "8080")},
		{"trailing-dot", id + "."}, {"prefixed", "x" + id}, {"suffixed", id + "x"}, {"hash", id + "#"}, {"empty-port", id + ":"}, {"only-port", ":80"},
		{"empty", ""}, {"lead-space", " " + id}, {"trail-space", id + " "}, {"other", "other.example"}, {"two-ports", id + ":80:80"},
		{"bracketed", "[" + id + "]"}, {"bracketed-port", "[" + id + "]:80"}, {"raw-port", id + ":80"}, {"open-bracket", "[" + id},
		{"close-bracket", id + "]"}, {"bracket-junk", "[" + id + "]x"}, {"bracket-empty-port", "[" + id + "]:"}, {"double-bracket", "[[" + id + "]]"},
		{"zone", "[" + id + "%25eth0]"}, {"bracket-swapcase", "[" + c15SwapCase(id) + "]"},
		// spellings that KeyBuilder.Safe maps to the identifier's storage key
		{"dollar-mid", id[:1] + "$" + id[1:]}, {"bang", id + "!"}, {"parens", "(" + id + ")"}, {"star-mid", id[:1] + "*" + id[1:]}}
	if strings.ContainsAny(id, "kK") {
		v = append(v, c15Variant{"kelvin", strings.NewReplacer("k", "K", "K", "K").Replace(id)})
	}
	if strings.ContainsAny(id, "sS") {
		v = append(v, c15Variant{"long-s", strings.NewReplacer("s", "ſ", "S", "ſ").Replace(id)})
	}
	return v
}

func c15PathVariants(tok, otherTok string) []c15Variant {
	b := c15Base
	return []c15Variant{{"exact", b + "/" + tok}, {"trailing-slash", b + "/" + tok + "/"}, {"longer", b + "/" + tok + "x"}, {"shorter", b + "/" + tok[:len(tok)-1]},
		{"base", b}, {"base-slash", b + "/"}, {"double-slash-lead", "/" + b + "/" + tok}, {"double-slash-mid", b + "//" + tok}, {"upper-base", strings.ToUpper(b) + "/" + tok},
		{"encoded-dot", "/%2Ewell-known/acme-challenge/" + tok}, {"encoded-token", b + "/%" + fmt.Sprintf("%02X", tok[0]) + tok[1:]}, {"encoded-slash", b + "/" + tok + "%2F"},
		{"query", b + "/" + tok + "?q=1"}, {"prefixed", "/app" + b + "/" + tok}, {"base-longer", b + "X/" + tok}, {"other-token", b + "/" + otherTok},
		{"doubled", b + "/" + tok + tok}, {"swapcase-token", b + "/" + c15SwapCase(tok)}, {"root", "/"}, {"dot-segment", b + "/./" + tok}, {"dotdot-segment", b + "/x/../" + tok}}
}

var c15Methods = []string{"GET", "HEAD", "POST", "get", "GETX", "PUT", "OPTIONS"}

func c15SNIVariants(key, ident string) []c15Variant {
	v := []c15Variant{{"exact", key}, {"swapcase", c15SwapCase(key)}, {"hash", key + "#"}, {"trailing-dot", key + "."}, {"prefixed", "x" + key}, {"empty", ""},
		{"other", "other.example"}, {"lead-space", " " + key}, {"plus", key + "+"}, {"colon", key + ":"}, {"slash", key + "/"}, {"ident", ident},
		{"dollar-mid", key[:1] + "$" + key[1:]}, {"bang", key + "!"}, {"parens", "(" + key + ")"}}
	if strings.ContainsAny(key, "kK") {
		v = append(v, c15Variant{"kelvin", strings.NewReplacer("k", "K", "K", "K").Replace(key)})
	}
	return v
}

var c15Protos = []struct {
	name string
	p    []string
}{{"acme-only", []string{"acme-tls/1"}}, {"none", nil}, {"h2", []string{"h2"}}, {"acme+h2", []string{"acme-tls/1", "h2"}}, {"h2+acme", []string{"h2", "acme-tls/1"}},
	{"acme-twice", []string{"acme-tls/1", "acme-tls/1"}}, {"upper", []string{"ACME-TLS/1"}}, {"trail-space", []string{"acme-tls/1 "}}, {"http1+acme", []string{"http/1.1", "acme-tls/1"}}, {"empty-proto", []string{""}}}

// queriesFor builds the request set aimed at challenge ci (or at an unknown challenge).
func c15QueriesFor(r *rand.Rand, chals []c15Chal, ci int, state string, thorough bool) ([]c15Query, []map[string]any) {
	var qs []c15Query
	var ds []map[string]any
	c := chals[ci]
	other := c15Token(r)
	for _, x := range chals {
		if x.Token != c.Token {
			other = x.Token
		}
	}
	idk := "dns"
	if c.IDType == "ip" {
		idk = "ipv4"
		if strings.Contains(c.Ident, ":") {
			idk = "ipv6"
		}
	}
	add := func(q c15Query, d map[string]any) {
		d["targets"] = state
		d["ident_kind"] = idk
		d["chal_type"] = c.Type
		d["query"] = q.Kind
		if q.LoadFault {
			d["fault"] = "load"
		}
		if q.Disabled {
			d["fault"] = "http-disabled"
		}
		qs = append(qs, q)
		ds = append(ds, d)
	}
	hv, pv := c15HostVariants(c.Ident), c15PathVariants(c.Token, other)
	// the challenge's memory / storage key as Host: found by the lookup, refused by the Host check
	hv = append(hv, c15Variant{"chal-key", c15KeyOf(c.acme())}, c15Variant{"chal-key-port", c15KeyOf(c.acme()) + ":80"})
	exactPath := pv[0].val
	hostExact := c.Ident
	if idk == "ipv6" {
		hostExact = "[" + c.Ident + "]"
	}
	for _, h := range hv {
		add(c15Query{Kind: "http", Method: "GET", Target: exactPath, Host: h.val}, map[string]any{"host": h.name, "path": "exact", "method": "GET"})
	}
	for _, p := range pv[1:] {
		add(c15Query{Kind: "http", Method: "GET", Target: p.val, Host: hostExact}, map[string]any{"host": "exact", "path": p.name, "method": "GET"})
	}
	for _, m := range c15Methods[1:] {
		add(c15Query{Kind: "http", Method: m, Target: exactPath, Host: hostExact}, map[string]any{"host": "exact", "path": "exact", "method": m})
	}
	add(c15Query{Kind: "http", Method: "GET", Target: exactPath, Host: hostExact, Disabled: true}, map[string]any{"host": "exact", "path": "exact", "method": "GET"})
	add(c15Query{Kind: "http", Method: "GET", Target: exactPath, Host: hostExact, LoadFault: true}, map[string]any{"host": "exact", "path": "exact", "method": "GET"})
	nr := 12
	if thorough {
		nr = 60
	}
	for i := 0; i < nr; i++ {
		h, p, m := hv[r.Intn(len(hv))], pv[r.Intn(len(pv))], c15Methods[r.Intn(len(c15Methods))]
		if r.Intn(3) > 0 {
			m = "GET"
		}
		add(c15Query{Kind: "http", Method: m, Target: p.val, Host: h.val, LoadFault: r.Intn(15) == 0}, map[string]any{"host": h.name, "path": p.name, "method": m})
	}
	key := c15KeyOf(c.acme())
	sv := c15SNIVariants(key, c.Ident)
	for _, s := range sv {
		add(c15Query{Kind: "hello", SNI: s.val, Protos: []string{"acme-tls/1"}}, map[string]any{"sni": s.name, "protos": "acme-only"})
	}
	for _, p := range c15Protos[1:] {
		add(c15Query{Kind: "hello", SNI: key, Protos: p.p}, map[string]any{"sni": "exact", "protos": p.name})
	}
	add(c15Query{Kind: "hello", SNI: key, Protos: []string{"acme-tls/1"}, LoadFault: true}, map[string]any{"sni": "exact", "protos": "acme-only"})
	for i := 0; i < nr/2; i++ {
		s, p := sv[r.Intn(len(sv))], c15Protos[r.Intn(len(c15Protos))]
		add(c15Query{Kind: "hello", SNI: s.val, Protos: p.p}, map[string]any{"sni": s.name, "protos": p.name})
	}
	return qs, ds
}

// c15Asks are the two validation requests of challenge c as intermediate steps of a history.
func c15Asks(c c15Chal) []c15Op {
	host := c.Ident
	if c.IDType == "ip" && strings.Contains(c.Ident, ":") {
		host = "[" + c.Ident + "]"
	}
	return []c15Op{
		{Kind: "ask", Q: &c15Query{Kind: "hello", SNI: c15KeyOf(c.acme()), Protos: []string{"acme-tls/1"}}},
		{Kind: "ask", Q: &c15Query{Kind: "http", Method: "GET", Target: c15Base + "/" + c.Token, Host: host}},
	}
}

// c15Uniq makes an identifier unique to scenario n, keeping its kind and letter case.
func c15Uniq(id string, n int) string {
	if ip := net.ParseIP(id); ip != nil {
		if ip.To4() != nil {
			return fmt.Sprintf("192.0.%d.%d", 2+n/250, 1+n%250)
		}
		return fmt.Sprintf("2001:db8::%x", 0x10+n)
	}
	if i := strings.IndexByte(id, '.'); i > 0 {
		return fmt.Sprintf("%s-%d%s", id[:i], n, id[i:])
	}
	return fmt.Sprintf("%s-%d", id, n)
}

func runC15(tier string, seed int64, outdir string, replay string) error {
	w := emit.NewWriter(outdir, "C15", tier, seed)
	defer w.Close()
	env, err := c15NewEnv()
	if err != nil {
		return err
	}
	defer env.stopAll()
	defer func() { w.Meta.Oracles = append(w.Meta.Oracles, env.own.check()) }()
	run := &c15Runner{env: env, w: w}
	r := rand.New(rand.NewSource(seed))
	thorough := tier == "thorough"

	// oracle hypotheses about the libraries the model relies on
	tok := "tOkEn_123"
	w.Meta.Oracles = append(w.Meta.Oracles,
		emit.OracleCheck{Name: "acmez.ACMETLS1Protocol == \"acme-tls/1\" (value the translator assumes for the name the handshake compares with)", OK: acmez.ACMETLS1Protocol == "acme-tls/1", Detail: acmez.ACMETLS1Protocol},
		emit.OracleCheck{Name: "acme.Challenge.HTTP01ResourcePath() == acmeHTTPChallengeBasePath + \"/\" + token", OK: (acme.Challenge{Token: tok}).HTTP01ResourcePath() == c15Base+"/"+tok, Detail: (acme.Challenge{Token: tok}).HTTP01ResourcePath()})
	efOK, efDetail := true, ""
	for a := rune(0); a < 128; a++ {
		for b := rune(0); b < 128; b++ {
			want := a == b || (unicode.ToLower(a) == unicode.ToLower(b) && (unicode.IsLetter(a) && unicode.IsLetter(b)))
			if strings.EqualFold(string(a), string(b)) != want {
				efOK, efDetail = false, fmt.Sprintf("%q %q", a, b)
			}
		}
	}
	for i := 0; i < 5000; i++ { // EqualFold is rune-wise
		n := r.Intn(6)
		var a, b []rune
		for k := 0; k < n; k++ {
			pool := []rune{'a', 'A', 'k', 'K', 0x212a, 's', 0x17f, 'S', '.', '1', 0xe9, 0xc9, 0x3c3, 0x3c2, 0x3a3}
			a = append(a, pool[r.Intn(len(pool))])
			b = append(b, pool[r.Intn(len(pool))])
		}
		if r.Intn(8) == 0 {
			b = append(b, 'x')
		}
		want := len(a) == len(b)
		for k := 0; want && k < len(a); k++ {
			want = strings.EqualFold(string(a[k]), string(b[k]))
		}
		if strings.EqualFold(string(a), string(b)) != want {
			efOK, efDetail = false, fmt.Sprintf("%q %q", string(a), string(b))
		}
	}
	w.Meta.Oracles = append(w.Meta.Oracles, emit.OracleCheck{Name: "strings.EqualFold is rune-wise and, below 128, equality up to ASCII letter case (all 128x128 pairs; 5000 random strings)", OK: efOK, Detail: efDetail})
	jsonOK := true
	for _, c := range []c15Chal{c15NewChal(r, "http-01", "a.example"), c15NewChal(r, "tls-alpn-01", "2001:db8::7")} {
		b, _ := json.Marshal(c.acme())
		var back acme.Challenge
		if json.Unmarshal(b, &back) != nil || back.Token != c.Token || back.KeyAuthorization != c.KeyAuth || back.Identifier != c.acme().Identifier || back.Type != c.Type {
			jsonOK = false
		}
	}
	w.Meta.Oracles = append(w.Meta.Oracles, emit.OracleCheck{Name: "acme.Challenge survives the JSON round trip through storage (type, token, key authorization, identifier)", OK: jsonOK})
	w.Meta.Rule = "distinct (history, request) pairs in which the history presented at least one challenge and the request is a c15Variant of that challenge's validation request (its token path / identifier / key in some spelling)"

	if replay != "" {
		rc, err := loadReplay(replay)
		if err != nil {
			return err
		}
		var in c15In
		if err := json.Unmarshal(rc.In, &in); err != nil {
			return err
		}
		d := map[string]any{}
		for k, v := range rc.Desc {
			d[k] = v
		}
		if in.E2E != nil {
			x, err := c15NewE2E(w, &env.own, env.host)
			if err != nil {
				return err
			}
			defer x.close()
			return x.order(*in.E2E)
		}
		return run.runScenario(in.Chals, in.Ops, []c15Query{in.Query}, []map[string]any{d})
	}

	type scen struct {
		name  string
		chals []c15Chal
		ops   []c15Op
		state []string // per challenge: what the history did with it
		class string
	}
	var scens []scen
	idents := []string{"a.example", "MiXed.Example", "192.0.2.7", "2001:db8::7", "kiosk.example"}
	if thorough {
		idents = append(idents, "::1", "b-2.sub.example", "10.11.12.13")
	}
	P := func(place string, j, c int) c15Op { return c15Op{Kind: "present", Place: place, J: j, C: c} }
	C := func(place string, j, c int) c15Op { return c15Op{Kind: "clean", Place: place, J: j, C: c} }
	A := func(c int) c15Op { return c15Op{Kind: "ask", C: c} } // this process answers c's validation requests
	CF := func(place string, j, c int) c15Op { return c15Op{Kind: "clean", Place: place, J: j, C: c, Fault: true} }
	// ---- corpus: witnesses of the fixed findings and the four states of the property text
	for _, id := range idents {
		for _, typ := range []string{"http-01", "tls-alpn-01"} {
			c0 := c15NewChal(r, typ, id)
			unk := c15NewChal(r, typ, "unknown.example")
			scens = append(scens,
				scen{"none", []c15Chal{unk}, nil, []string{"unknown"}, ""},
				scen{"local", []c15Chal{c0}, []c15Op{P("local", 0, 0)}, []string{"local"}, ""},
				scen{"remote", []c15Chal{c0}, []c15Op{P("remote", 0, 0)}, []string{"remote"}, ""},
				scen{"local-cleaned", []c15Chal{c0}, []c15Op{P("local", 0, 0), C("local", 0, 0)}, []string{"cleaned"}, ""},
				scen{"remote-cleaned", []c15Chal{c0}, []c15Op{P("remote", 1, 0), C("remote", 1, 0)}, []string{"cleaned"}, ""},
				scen{"remote-issuer2", []c15Chal{c0}, []c15Op{P("remote", 1, 0)}, []string{"remote"}, ""},
				scen{"remote-testca", []c15Chal{c0}, []c15Op{{Kind: "present", Place: "remote", J: 0, TestCA: true, C: 0}}, []string{"remote"}, "testca-remote"},
				scen{"local-testca", []c15Chal{c0}, []c15Op{{Kind: "present", Place: "local", J: 0, TestCA: true, C: 0}}, []string{"local"}, ""},
			)
			// answering must not change what later requests get: this process answers the validation
			// of a challenge, then the challenge is cleaned up / replaced by a new one for the same name
			c1 := c15NewChal(r, typ, id)
			co := c15NewChal(r, map[string]string{"http-01": "tls-alpn-01", "tls-alpn-01": "http-01"}[typ], id)
			scens = append(scens,
				// asked before anybody presented (nothing to find), then presented elsewhere: found now
				scen{"asked-then-remote", []c15Chal{c0}, []c15Op{A(0), P("remote", 0, 0)}, []string{"remote"}, ""},
				scen{"asked-then-local", []c15Chal{c0}, []c15Op{A(0), P("local", 1, 0)}, []string{"local"}, ""},
				scen{"remote-asked", []c15Chal{c0}, []c15Op{P("remote", 0, 0), A(0)}, []string{"remote"}, ""},
				scen{"remote-asked-cleaned", []c15Chal{c0}, []c15Op{P("remote", 0, 0), A(0), C("remote", 0, 0)}, []string{"cleaned"}, ""},
				scen{"remote-asked-renewed", []c15Chal{c0, c1}, []c15Op{P("remote", 0, 0), A(0), C("remote", 0, 0), P("remote", 0, 1)}, []string{"cleaned", "remote"}, ""},
				scen{"remote-asked-renewed-other-type", []c15Chal{c0, co}, []c15Op{P("remote", 1, 0), A(0), C("remote", 1, 0), P("remote", 0, 1), A(1)}, []string{"cleaned", "remote"}, ""},
				scen{"local-asked-cleaned", []c15Chal{c0}, []c15Op{P("local", 0, 0), A(0), C("local", 0, 0)}, []string{"cleaned"}, ""},
				// the embedded clean-up reports an error: the challenge is over all the same
				scen{"local-cleaned-faulty", []c15Chal{c0}, []c15Op{P("local", 0, 0), CF("local", 0, 0)}, []string{"cleaned"}, ""},
				scen{"remote-cleaned-faulty", []c15Chal{c0}, []c15Op{P("remote", 1, 0), CF("remote", 1, 0)}, []string{"cleaned"}, ""},
				scen{"local-cleaned-faulty-renewed-remotely", []c15Chal{c0, c1}, []c15Op{P("local", 0, 0), A(0), CF("local", 0, 0), P("remote", 0, 1)}, []string{"cleaned", "remote"}, ""},
			)
		}
	}
	{
		a, b := c15NewChal(r, "http-01", "a.example"), c15NewChal(r, "tls-alpn-01", "b.example")
		d := c15NewChal(r, "dns-01", "d.example")
		ip := c15NewChal(r, "tls-alpn-01", "192.0.2.7")
		scens = append(scens,
			scen{"mem-only", []c15Chal{d}, []c15Op{P("mem", 0, 0)}, []string{"mem"}, ""},
			scen{"mem-only-cleaned", []c15Chal{d}, []c15Op{P("mem", 0, 0), C("mem", 0, 0)}, []string{"cleaned"}, ""},
			scen{"mem-only-cleaned-faulty", []c15Chal{d}, []c15Op{P("mem", 0, 0), CF("mem", 0, 0)}, []string{"cleaned"}, ""},
			scen{"two", []c15Chal{a, b}, []c15Op{P("local", 0, 0), P("remote", 1, 1)}, []string{"local", "remote"}, ""},
			scen{"two-one-cleaned", []c15Chal{a, b, ip}, []c15Op{P("local", 0, 0), P("remote", 1, 1), P("remote", 0, 2), C("local", 0, 0)}, []string{"cleaned", "remote", "remote"}, ""},
			scen{"corrupt", []c15Chal{a}, []c15Op{P("remote", 0, 0), {Kind: "tamper", J: 0, Name: "a.example", V: "corrupt"}}, []string{"tampered"}, ""},
			scen{"emptied", []c15Chal{a}, []c15Op{P("remote", 0, 0), {Kind: "tamper", J: 0, Name: "a.example", V: "empty"}}, []string{"tampered"}, ""},
			scen{"removed", []c15Chal{a}, []c15Op{P("remote", 0, 0), {Kind: "tamper", J: 0, Name: "a.example", V: "delete"}}, []string{"tampered"}, ""},
			scen{"shadowed", []c15Chal{a}, []c15Op{P("remote", 1, 0), {Kind: "tamper", J: 0, Name: "a.example", V: "corrupt"}}, []string{"tampered"}, ""},
			scen{"local-store-removed", []c15Chal{b}, []c15Op{P("local", 0, 0), {Kind: "tamper", J: 0, Name: "b.example", V: "delete"}}, []string{"tampered"}, ""},
		)
	}
	// ---- requests that arrive at the solver's OWN listener. The listener is shared by the orders of
	// this process; the order that happened to open it is over (its context cancelled), another local
	// order keeps it open, and a challenge of ANOTHER instance is validated through it.
	type viaScen struct {
		chals   []c15Chal
		ops     []c15Op
		queries []c15Query
		descs   []map[string]any
	}
	var viaScens []viaScen
	for round := 0; round < 2; round++ {
		c0, c1, c2 := c15NewChal(r, "http-01", "opener.example"), c15NewChal(r, "http-01", "keeper.example"), c15NewChal(r, "http-01", "elsewhere.example")
		vs := viaScen{chals: []c15Chal{c0, c1, c2}}
		vs.ops = []c15Op{{Kind: "present", Place: "local", J: 0, C: 0, Cancel: round == 0}, P("local", 0, 1), P("remote", 0, 2)}
		if round == 0 {
			vs.ops = []c15Op{{Kind: "present", Place: "local", J: 0, C: 0, Cancel: true}, P("local", 0, 1), {Kind: "clean", Place: "local", J: 0, C: 0, Cancel: true}, P("remote", 0, 2)}
		}
		viaScens = append(viaScens, vs)
	}
	// ---- random histories
	nRand := 14
	if thorough {
		nRand = 150
	}
	for i := 0; i < nRand; i++ {
		n := 1 + r.Intn(3)
		var chals []c15Chal
		perm := r.Perm(len(idents))
		for k := 0; k < n; k++ {
			typ := []string{"http-01", "tls-alpn-01", "dns-01"}[r.Intn(3)]
			id := idents[perm[k]]
			if r.Intn(6) == 0 && k > 0 { // same identifier twice (outside the discipline: model comparison only)
				id = chals[0].Ident
			}
			chals = append(chals, c15NewChal(r, typ, id))
		}
		var ops []c15Op
		state := make([]string, n)
		placeOf := make([]c15Op, n)
		for k := range state {
			state[k] = "unknown"
		}
		for step := 0; step < 1+r.Intn(5); step++ {
			k := r.Intn(n)
			switch {
			case state[k] == "unknown" || state[k] == "cleaned":
				place := []string{"local", "remote"}[r.Intn(2)]
				if chals[k].Type == "dns-01" {
					place = "mem"
				}
				op := c15Op{Kind: "present", Place: place, J: r.Intn(2), C: k, TestCA: r.Intn(4) == 0 && place != "mem"}
				ops, placeOf[k], state[k] = append(ops, op), op, place
			case r.Intn(4) == 0:
				ops = append(ops, A(k))
			case r.Intn(8) == 0 && placeOf[k].Place != "mem":
				ops = append(ops, c15Op{Kind: "tamper", J: placeOf[k].J, Name: chals[k].Ident, V: []string{"delete", "corrupt", "empty"}[r.Intn(3)]})
				state[k] = "tampered"
			default:
				cl := placeOf[k]
				cl.Kind = "clean"
				cl.Fault = r.Intn(3) == 0
				ops, state[k] = append(ops, cl), "cleaned"
			}
		}
		scens = append(scens, scen{"random", chals, ops, state, ""})
	}
	for n, s := range scens {
		s.chals = append([]c15Chal(nil), s.chals...)
		s.ops = append([]c15Op(nil), s.ops...)
		ren := map[string]string{}
		for i := range s.chals {
			if _, ok := ren[s.chals[i].Ident]; !ok {
				ren[s.chals[i].Ident] = c15Uniq(s.chals[i].Ident, n*4+i)
			}
			s.chals[i].Ident = ren[s.chals[i].Ident]
		}
		var ops2 []c15Op
		for _, op := range s.ops {
			switch {
			case op.Kind == "tamper":
				op.Name = ren[op.Name]
				ops2 = append(ops2, op)
			case op.Kind == "ask" && op.Q == nil: // symbolic: the validation requests of challenge op.C
				ops2 = append(ops2, c15Asks(s.chals[op.C])...)
			default:
				ops2 = append(ops2, op)
			}
		}
		s.ops = ops2
		var qs []c15Query
		var ds []map[string]any
		for ci := range s.chals {
			q, d := c15QueriesFor(r, s.chals, ci, s.state[ci], thorough)
			for _, x := range d {
				x["scenario"] = s.name
				if s.class != "" {
					x["class"] = s.class
				}
			}
			qs, ds = append(qs, q...), append(ds, d...)
		}
		// classes of the fixed findings, matched by known_findings entries
		for i := range qs {
			if ds[i]["sni"] == "hash" && ds[i]["protos"] == "acme-only" {
				ds[i]["class"] = "safe-collision-sni"
			}
			if ds[i]["host"] == "bracketed" && ds[i]["ident_kind"] == "ipv6" && ds[i]["path"] == "exact" {
				ds[i]["class"] = "ipv6-bracket-noport"
			}
		}
		if err := run.runScenario(s.chals, s.ops, qs, ds); err != nil {
			return fmt.Errorf("scenario %s: %v", s.name, err)
		}
		w.Hist("scenario=" + s.name)
	}
	for n, vs := range viaScens {
		ren := map[string]string{}
		for i := range vs.chals {
			ren[vs.chals[i].Ident] = c15Uniq(vs.chals[i].Ident, 5000+n*4+i)
			vs.chals[i].Ident = ren[vs.chals[i].Ident]
		}
		states := []string{"cleaned", "local", "remote"}
		if n == 1 {
			states[0] = "local"
		}
		for ci, c := range vs.chals {
			for _, hv := range []c15Variant{{"exact", c.Ident}, {"port80", c.Ident + ":80"}, {"other", "other.example"}, {"swapcase", c15SwapCase(c.Ident)}} {
				for _, pv := range []c15Variant{{"exact", c15Base + "/" + c.Token}, {"longer", c15Base + "/" + c.Token + "x"}} {
					vs.queries = append(vs.queries, c15Query{Kind: "http", Method: "GET", Target: pv.val, Host: hv.val, Via: "listener"})
					vs.descs = append(vs.descs, map[string]any{"scenario": "via-solver-listener", "class": "listener-base-context", "targets": states[ci], "ident_kind": "dns", "chal_type": c.Type,
						"query": "http", "via": "listener", "host": hv.name, "path": pv.name, "method": "GET"})
				}
			}
		}
		if err := run.runScenario(vs.chals, vs.ops, vs.queries, vs.descs); err != nil {
			return fmt.Errorf("scenario via-solver-listener: %v", err)
		}
		w.Hist("scenario=via-solver-listener")
	}
	// ---- end-to-end: real orders on this node, validation requests at another node (another
	// process) sharing the storage
	x, err := c15NewE2E(w, &env.own, env.host)
	if err != nil {
		return err
	}
	defer x.close()
	e2e := []c15E2E{{"http-01", "a.example"}, {"tls-alpn-01", "a.example"}, {"tls-alpn-01", "192.0.2.7"}, {"http-01", "2001:db8::7"}}
	if thorough {
		e2e = append(e2e, c15E2E{"http-01", "192.0.2.7"}, c15E2E{"tls-alpn-01", "2001:db8::7"}, c15E2E{"http-01", "b-2.sub.example"}, c15E2E{"tls-alpn-01", "kiosk.example"})
	}
	for _, sc := range e2e {
		if err := x.order(sc); err != nil {
			return err
		}
	}
	w.Meta.Oracles = append(w.Meta.Oracles, emit.OracleCheck{
		Name:   fmt.Sprintf("end-to-end: %d real orders (ACMEIssuer.Issue against the mock CA) whose validation requests were answered by another node (second process on the same file storage); %d requests sent to that node", len(e2e), x.n),
		OK:     len(x.bad) == 0,
		Detail: strings.Join(x.bad, "; ")})
	return nil
}
