package main

import (
	"encoding/json"
	"fmt"
	"math/rand"
	"os"

	"verifharness/pkg/emit"
)

func init() { register("C09", runC09) }

type c09Prog struct {
	Label     string
	Thread    issThread
	Seeds     []issSeed
	LastClean string
}

// c09Programs: every lock-taking operation reachable with the doubles, in the configurations
// that change its exit paths. (Account registration needs the mock ACME CA: not covered here.)
func c09Programs() []c09Prog {
	due := []issSeed{{nmCanon, "due"}}
	fresh := []issSeed{{nmCanon, "fresh"}}
	return []c09Prog{
		{"obtain-sync", issThread{Prog: "obtain", Name: nmCanon}, nil, ""},
		{"obtain-sync-reuse-nochk", issThread{Prog: "obtain", Name: nmCanon, Reuse: true, NoChk: true}, []issSeed{{nmCanon, "keyonly"}}, ""},
		{"obtain-sync-unicode", issThread{Prog: "obtain", Name: nmUni}, nil, ""},
		{"obtain-async", issThread{Prog: "obtain", Name: nmCanon, Async: true}, nil, ""},
		{"obtain-async-reuse", issThread{Prog: "obtain", Name: nmCanon, Async: true, Reuse: true}, nil, ""},
		{"renew-sync", issThread{Prog: "renew", Name: nmCanon}, due, ""},
		{"renew-sync-not-due", issThread{Prog: "renew", Name: nmCanon}, fresh, ""},
		{"renew-sync-force-reuse", issThread{Prog: "renew", Name: nmCanon, Force: true, Reuse: true}, fresh, ""},
		{"renew-sync-missing", issThread{Prog: "renew", Name: nmCanon, NoChk: true}, nil, ""},
		{"renew-async", issThread{Prog: "renew", Name: nmCanon, Async: true}, due, ""},
		{"renew-async-force", issThread{Prog: "renew", Name: nmCanon, Async: true, Force: true, NoChk: true}, fresh, ""},
		{"manage-obtain", issThread{Prog: "manage", Name: nmCanon}, nil, ""},
		{"manage-renew", issThread{Prog: "manage", Name: nmCanon}, due, ""},
		{"clean", issThread{Prog: "clean"}, due, ""},
		{"clean-interval-first", issThread{Prog: "clean", Interval: true}, fresh, ""},
		{"clean-interval-old", issThread{Prog: "clean", Interval: true}, fresh, "old"},
		{"clean-interval-recent", issThread{Prog: "clean", Interval: true}, fresh, "recent"},
		{"ari-update", issThread{Prog: "ari", Name: nmCanon}, fresh, ""},
		{"ari-newer-in-storage", issThread{Prog: "ari", Name: nmCanon, Newer: true}, fresh, ""},
	}
}

func c09Emit(w *emit.Writer, label string, cs issCase, o *issObs) {
	rec := cs
	rec.Policy, rec.Script = "script", o.Sched
	d := map[string]any{"class": cs.Class, "program": label, "threads": len(cs.Threads), "faults": len(cs.Faults), "steps": len(o.Steps),
		"held": o.Held, "recorded": o.Recorded, "deadlock": o.Deadlock}
	w.Add(emit.Case{Desc: d, In: rec, Obs: o, Wire: issWire(9, o), Nontrivial: len(cs.Faults) > 0, Key: fmt.Sprint(label, len(cs.Threads), cs.Faults, o.Sched)})
	w.Hist("program=" + label)
	w.Hist("class=" + cs.Class)
	w.Hist(fmt.Sprintf("threads=%d", len(cs.Threads)))
	for _, s := range o.Steps {
		if s.Fault != 0 {
			w.Hist("fault=" + faultNames[s.Fault])
			w.Hist("fault_at=" + opKindOf(s.Desc))
		}
	}
	for _, r := range o.Results {
		w.Hist("result=" + []string{"ok", "error", "panic"}[r])
	}
}

func opKindOf(desc string) string {
	for i := 0; i < len(desc); i++ {
		if desc[i] == ' ' {
			return desc[:i]
		}
	}
	return desc
}

func runC09(tier string, seed int64, outdir string, replay string) error {
	w := emit.NewWriter(outdir, "C09", tier, seed)
	defer w.Close()
	w.Meta.Oracles = []emit.OracleCheck{}
	w.Meta.Rule = "distinct (operation, configuration, fault plan, schedule) runs with at least one injected fault"
	if replay != "" {
		rc, err := loadReplay(replay)
		if err != nil {
			return err
		}
		var cs issCase
		if err := json.Unmarshal(rc.In, &cs); err != nil {
			return err
		}
		o, err := runIssCase(cs)
		if err != nil {
			return err
		}
		label, _ := rc.Desc["program"].(string)
		c09Emit(w, label, cs, o)
		return nil
	}
	mk := func(p c09Prog, nth int) issCase {
		cs := issCase{Seeds: p.Seeds, LastClean: p.LastClean, Policy: "rr", Class: "generic", AllowSaveFault: true, AllowUnlockFault: true, AllowOverlap: true}
		for i := 0; i < nth; i++ {
			cs.Threads = append(cs.Threads, p.Thread)
		}
		return cs
	}
	total := 0
	for _, p := range c09Programs() {
		base := mk(p, 1)
		o, err := runIssCase(base)
		if err != nil {
			return fmt.Errorf("%s: %v", p.Label, err)
		}
		if tier == "debug" {
			fmt.Fprintf(os.Stderr, "--- %s results=%v held=%d rec=%d\n", p.Label, o.Results, o.Held, o.Recorded)
			for _, s := range o.Steps {
				fmt.Fprintf(os.Stderr, "   t%d %-6s %-70s out=%d enc=%v\n", s.Tid, faultNames[s.Fault], s.Desc, s.Out, s.Op)
			}
		}
		c09Emit(w, p.Label, base, o)
		n := len(o.Steps)
		// every op index of the fault-free trace x {error, cancel, panic}; one and two threads
		for nth := 1; nth <= 2; nth++ {
			if nth == 2 && (p.Thread.Prog == "ari" && p.Thread.Newer) {
				continue
			}
			for k := 0; k < n; k++ {
				isUnlock := opKindOf(o.Steps[k].Desc) == "Unlock"
				for f := fErr; f <= fPanic; f++ {
					cs := mk(p, nth)
					cs.Faults = map[string]int{fmt.Sprintf("0:%d", k): f}
					if isUnlock && f != fCancel {
						if nth == 2 {
							continue // the second thread could never get the lock: by definition still held
						}
						cs.Class = "fault-at-unlock"
					}
					oo, err := runIssCase(cs)
					if err != nil {
						return fmt.Errorf("%s fault %d@%d: %v", p.Label, f, k, err)
					}
					c09Emit(w, p.Label, cs, oo)
					total++
				}
			}
		}
	}
	w.Meta.Exhaustive = true
	w.Meta.Universe = fmt.Sprintf("%d operations/configurations x every op index of the fault-free trace x {error, cancel, panic} x {1, 2 threads} = %d faulty runs on the in-memory Locker (Unlock failures only single-threaded); plus random two-fault plans", len(c09Programs()), total)
	// random plans with two or three faults (paths only reachable after a first fault: retries, rollbacks)
	r := rand.New(rand.NewSource(seed))
	nr := 300
	if tier == "thorough" {
		nr = 5000
	}
	progs := c09Programs()
	for i := 0; i < nr; i++ {
		p := progs[r.Intn(len(progs))]
		cs := mk(p, 1+r.Intn(2))
		cs.Policy, cs.SchedSeed = []string{"rr", "random", "sticky"}[r.Intn(3)], r.Int63()
		cs.Faults = map[string]int{}
		for j := 0; j < 2+r.Intn(2); j++ {
			cs.Faults[fmt.Sprintf("%d:%d", r.Intn(len(cs.Threads)), r.Intn(30))] = 1 + r.Intn(3)
		}
		cs.AllowUnlockFault = false
		oo, err := runIssCase(cs)
		if err != nil {
			return fmt.Errorf("%s random plan %v: %v", p.Label, cs.Faults, err)
		}
		c09Emit(w, p.Label, cs, oo)
	}
	return nil
}
