//go:build !skip_c09

package main

import (
	"encoding/json"
	"fmt"
	"math/rand"
	"os"

	"verifharness/pkg/emit"
)

func init() { register("C09", runC09) }

type c09Prog struct {
	Label     string
	Thread    c01issThread
	Seeds     []c01issSeed
	LastClean string
	AcctSeed  map[string]string
}

// c09Programs: every lock-taking operation reachable with the doubles, in the configurations
// that change its exit paths. Account registration (newACMEClientWithAccount) runs against the mock ACME
// server pkg/mockca09; its requests are gated through the issuer's HTTPProxy callback.
func c09Programs() []c09Prog {
	due := []c01issSeed{{c01nmCanon, "due"}}
	fresh := []c01issSeed{{c01nmCanon, "fresh"}}
	return []c09Prog{
		{"obtain-sync", c01issThread{Prog: "obtain", Name: c01nmCanon}, nil, "", nil},
		{"obtain-sync-reuse-nochk", c01issThread{Prog: "obtain", Name: c01nmCanon, Reuse: true, NoChk: true}, []c01issSeed{{c01nmCanon, "keyonly"}}, "", nil},
		{"obtain-sync-unicode", c01issThread{Prog: "obtain", Name: c01nmUni}, nil, "", nil},
		{"obtain-async", c01issThread{Prog: "obtain", Name: c01nmCanon, Async: true}, nil, "", nil},
		{"obtain-async-reuse", c01issThread{Prog: "obtain", Name: c01nmCanon, Async: true, Reuse: true}, nil, "", nil},
		{"renew-sync", c01issThread{Prog: "renew", Name: c01nmCanon}, due, "", nil},
		{"renew-sync-not-due", c01issThread{Prog: "renew", Name: c01nmCanon}, fresh, "", nil},
		{"renew-sync-force-reuse", c01issThread{Prog: "renew", Name: c01nmCanon, Force: true, Reuse: true}, fresh, "", nil},
		{"renew-sync-missing", c01issThread{Prog: "renew", Name: c01nmCanon, NoChk: true}, nil, "", nil},
		{"renew-async", c01issThread{Prog: "renew", Name: c01nmCanon, Async: true}, due, "", nil},
		{"renew-async-force", c01issThread{Prog: "renew", Name: c01nmCanon, Async: true, Force: true, NoChk: true}, fresh, "", nil},
		{"manage-obtain", c01issThread{Prog: "manage", Name: c01nmCanon}, nil, "", nil},
		{"manage-renew", c01issThread{Prog: "manage", Name: c01nmCanon}, due, "", nil},
		{"clean", c01issThread{Prog: "clean"}, due, "", nil},
		{"clean-interval-first", c01issThread{Prog: "clean", Interval: true}, fresh, "", nil},
		{"clean-interval-old", c01issThread{Prog: "clean", Interval: true}, fresh, "old", nil},
		{"clean-interval-recent", c01issThread{Prog: "clean", Interval: true}, fresh, "recent", nil},
		{"ari-update", c01issThread{Prog: "ari", Name: c01nmCanon}, fresh, "", nil},
		{"ari-newer-in-storage", c01issThread{Prog: "ari", Name: c01nmCanon, Newer: true}, fresh, "", nil},
		{"acct-register", c01issThread{Prog: "acct"}, nil, "", nil},
		{"acct-register-callback", c01issThread{Prog: "acct", Cb: true}, nil, "", nil},
		{"acct-registration-without-key", c01issThread{Prog: "acct"}, nil, "", map[string]string{"acct@example.com": "regonly"}},
		{"acct-already-registered", c01issThread{Prog: "acct"}, nil, "", map[string]string{"acct@example.com": "full"}},
	}
}

func c09Emit(w *emit.Writer, label string, cs c01issCase, o *c01issObs) {
	rec := cs
	rec.Policy, rec.Script = "script", o.Sched
	d := map[string]any{"class": cs.Class, "program": label, "backend": cs.Backend, "stores": cs.Stores, "threads": len(cs.Threads), "faults": len(cs.Faults), "steps": len(o.Steps),
		"held": o.Held, "recorded": o.Recorded, "deadlock": o.Deadlock}
	w.Add(emit.Case{Desc: d, In: rec, Obs: o, Wire: c01issWire(c09Mode(cs), o), Nontrivial: len(cs.Faults) > 0, Key: fmt.Sprint(label, cs.Backend, cs.CrashLock, cs.Stores, cs.Policy, len(cs.Threads), cs.Faults, cs.CancelWait, o.Sched)})
	w.Hist("program=" + label)
	w.Hist("backend=" + map[string]string{"": "memory", "file": "file"}[cs.Backend])
	w.Hist("class=" + cs.Class)
	w.Hist(fmt.Sprintf("threads=%d", len(cs.Threads)))
	if cs.Stores > 1 {
		w.Hist(fmt.Sprintf("separate_storages=%d", cs.Stores))
	}
	for _, s := range o.Steps {
		if s.Fault == c01fCancel && s.Op[0] == 7 {
			w.Hist(fmt.Sprintf("cancelled_while_waiting=%v", map[bool]string{false: "planned", true: "rescue"}[o.Deadlock]))
		}
		if s.Fault != 0 {
			w.Hist("fault=" + c01FaultNames[s.Fault])
			w.Hist("fault_at=" + c09OpKindOf(s.Desc))
		}
	}
	for _, r := range o.Results {
		w.Hist("result=" + []string{"ok", "error", "panic"}[r])
	}
}

func c09OpKindOf(desc string) string {
	for i := 0; i < len(desc); i++ {
		if desc[i] == ' ' {
			return desc[:i]
		}
	}
	return desc
}

func runC09(tier string, seed int64, outdir string, replay string) error {
	w := emit.NewWriter(outdir, "C09", tier, seed)
	defer w.Close()
	w.Meta.Oracles = []emit.OracleCheck{}
	w.Meta.Rule = "distinct (operation, configuration, fault plan, schedule) runs with at least one injected fault"
	if replay != "" {
		rc, err := loadReplay(replay)
		if err != nil {
			return err
		}
		var cs c01issCase
		if err := json.Unmarshal(rc.In, &cs); err != nil {
			return err
		}
		o, err := c01RunIssCase(cs)
		if err != nil {
			return err
		}
		label, _ := rc.Desc["program"].(string)
		c09Emit(w, label, cs, o)
		return nil
	}
	mk := func(p c09Prog, nth int) c01issCase {
		cs := c01issCase{Seeds: p.Seeds, LastClean: p.LastClean, AcctSeed: p.AcctSeed, Policy: "rr", Class: "generic", AllowSaveFault: true, AllowUnlockFault: true, AllowOverlap: true}
		for i := 0; i < nth; i++ {
			cs.Threads = append(cs.Threads, p.Thread)
		}
		return cs
	}
	total := 0
	for _, p := range c09Programs() {
		base := mk(p, 1)
		o, err := c01RunIssCase(base)
		if err != nil {
			return fmt.Errorf("%s: %v", p.Label, err)
		}
		if tier == "debug" {
			fmt.Fprintf(os.Stderr, "--- %s results=%v held=%d rec=%d\n", p.Label, o.Results, o.Held, o.Recorded)
			for _, s := range o.Steps {
				fmt.Fprintf(os.Stderr, "   t%d %-6s %-70s out=%d enc=%v\n", s.Tid, c01FaultNames[s.Fault], s.Desc, s.Out, s.Op)
			}
		}
		c09Emit(w, p.Label, base, o)
		n := len(o.Steps)
		// every op index of the fault-free trace x {error, cancel, panic}; one and two threads
		for nth := 1; nth <= 2; nth++ {
			if nth == 2 && (p.Thread.Prog == "ari" && p.Thread.Newer) {
				continue
			}
			for k := 0; k < n; k++ {
				isUnlock := c09OpKindOf(o.Steps[k].Desc) == "Unlock"
				for f := c01fErr; f <= c01fPanic; f++ {
					cs := mk(p, nth)
					cs.Faults = map[string]int{fmt.Sprintf("0:%d", k): f}
					if isUnlock && f != c01fCancel {
						if nth == 2 {
							continue // the second thread could never get the lock: by definition still held
						}
						cs.Class = "fault-at-unlock"
					}
					oo, err := c01RunIssCase(cs)
					if err != nil {
						return fmt.Errorf("%s fault %d@%d: %v", p.Label, f, k, err)
					}
					c09Emit(w, p.Label, cs, oo)
					total++
				}
			}
		}
		// two instances of one process on two SEPARATE storages use the same lock name at overlapping times (the
		// package-level record of held locks is keyed by the name only): both must have released their own
		// storage's lock when they return. Fault-free and every op index x fault in the first instance.
		twoStores := map[string]bool{"obtain-sync": true, "obtain-async": true, "renew-sync": true, "renew-async": true, "manage-renew": true, "clean": true, "ari-update": true}
		if twoStores[p.Label] {
			for k := -1; k < n; k++ {
				for f := c01fErr; f <= c01fPanic; f++ {
					if k >= 0 && c09OpKindOf(o.Steps[k].Desc) == "Unlock" && f != c01fCancel {
						continue
					}
					cs := mk(p, 2)
					cs.Stores = 2
					cs.Threads[1].Store = 1
					cs.AllowUnlockFault = false
					if k >= 0 {
						cs.Faults = map[string]int{fmt.Sprintf("0:%d", k): f}
					} else if f != c01fErr {
						cs.Policy = map[int]string{c01fCancel: "seq", c01fPanic: "random"}[f] // fault-free: rr, seq, random
						cs.SchedSeed = int64(7 + n)
					}
					oo, err := c01RunIssCase(cs)
					if err != nil {
						return fmt.Errorf("%s two storages fault %d@%d: %v", p.Label, f, k, err)
					}
					c09Emit(w, p.Label, cs, oo)
					total++
				}
			}
		}
		// the caller's context ends exactly while Lock is in progress and the Locker grants the (uncontended)
		// lock all the same, as FileStorage does: the operation holds a lock it must still release
		for k := 0; k < n; k++ {
			if c09OpKindOf(o.Steps[k].Desc) != "Lock" {
				continue
			}
			for nth := 1; nth <= 2; nth++ {
				if nth == 2 && ((p.Thread.Prog == "ari" && p.Thread.Newer) || (p.Thread.Prog == "acct" && p.AcctSeed["acct@example.com"] == "full")) {
					continue
				}
				for _, be := range []string{"", "file"} {
					if be == "file" && nth == 2 && tier != "thorough" && !map[string]bool{"renew-async": true, "clean-interval-old": true, "acct-register-callback": true}[p.Label] {
						continue // a hand-over on FileStorage costs a second
					}
					cs := mk(p, nth)
					cs.Backend, cs.LockIgnoresCtx = be, true
					cs.AllowUnlockFault = false
					cs.Faults = map[string]int{fmt.Sprintf("0:%d", k): c01fCancel}
					cs.Class = "cancel-at-lock-granted"
					oo, err := c01RunIssCase(cs)
					if err != nil {
						return fmt.Errorf("%s cancel at the Lock gate (%d instances, back-end %q): %v", p.Label, nth, be, err)
					}
					c09Emit(w, p.Label, cs, oo)
					total++
				}
			}
		}
		// the second request is cancelled while it waits for the lock the first one holds (after w further
		// steps of the holder); alone, and with a fault in the holder
		if !(p.Thread.Prog == "ari" && p.Thread.Newer) && !(p.Thread.Prog == "acct" && p.AcctSeed["acct@example.com"] == "full") {
			for wsteps := 0; wsteps <= 4; wsteps += 2 {
				for f := c01fNone; f <= c01fPanic; f++ {
					cs := mk(p, 2)
					cs.CancelWait = map[string]int{"0": wsteps, "1": wsteps} // whichever of the two has to wait
					if f != c01fNone {
						cs.Faults = map[string]int{fmt.Sprintf("0:%d", n/2+wsteps): f, fmt.Sprintf("1:%d", n/2+wsteps): f}
					}
					cs.AllowUnlockFault = false
					oo, err := c01RunIssCase(cs)
					if err != nil {
						return fmt.Errorf("%s cancel-wait %d fault %d: %v", p.Label, wsteps, f, err)
					}
					c09Emit(w, p.Label, cs, oo)
					total++
				}
			}
		}
	}
	// the same on the real FileStorage (lock files, polling) behind the gate: every op index x fault for
	// one instance; with a second instance queueing (each hand-over costs up to one poll interval of
	// FileStorage.Lock, 1 s) a few plans per program
	fileTwo := map[string]bool{"renew-async": true, "clean-interval-old": true, "acct-register-callback": true}
	nfile := 0
	for _, p := range c09Programs() {
		base := mk(p, 1)
		base.Backend = "file"
		o, err := c01RunIssCase(base)
		if err != nil {
			return fmt.Errorf("%s (file): %v", p.Label, err)
		}
		c09Emit(w, p.Label, base, o)
		n := len(o.Steps)
		for k := 0; k < n; k++ {
			isUnlock := c09OpKindOf(o.Steps[k].Desc) == "Unlock"
			for f := c01fErr; f <= c01fPanic; f++ {
				cs := mk(p, 1)
				cs.Backend = "file"
				cs.Faults = map[string]int{fmt.Sprintf("0:%d", k): f}
				if isUnlock && f != c01fCancel {
					cs.Class = "fault-at-unlock"
				}
				oo, err := c01RunIssCase(cs)
				if err != nil {
					return fmt.Errorf("%s (file) fault %d@%d: %v", p.Label, f, k, err)
				}
				c09Emit(w, p.Label, cs, oo)
				nfile++
			}
		}
		if (p.Thread.Prog == "ari" && p.Thread.Newer) || (p.Thread.Prog == "acct" && p.AcctSeed["acct@example.com"] == "full") {
			continue
		}
		if tier != "thorough" && !fileTwo[p.Label] {
			continue
		}
		for v := 0; v < 5; v++ {
			cs := mk(p, 2)
			cs.Backend = "file"
			cs.AllowUnlockFault = false
			switch v {
			case 3: // a dead holder's lock file is in the way: empty, or with an old timestamp
				cs.CrashLock = "stale"
			case 4:
				cs.CrashLock = "empty"
			case 1:
				cs.CancelWait = map[string]int{"0": 1, "1": 1}
			case 2:
				cs.Faults = map[string]int{fmt.Sprintf("0:%d", n/2): c01fPanic, fmt.Sprintf("1:%d", n/2): c01fPanic}
			}
			oo, err := c01RunIssCase(cs)
			if err != nil {
				return fmt.Errorf("%s (file) two instances, variant %d: %v", p.Label, v, err)
			}
			c09Emit(w, p.Label, cs, oo)
			nfile++
		}
	}
	w.Meta.Exhaustive = true
	w.Meta.Universe = fmt.Sprintf("%d operations/configurations x every op index of the fault-free trace x {error, cancel, panic} x {1, 2 threads}, plus the second request cancelled while waiting after 0/2/4 steps x {no fault, error, cancel, panic in the holder} = %d runs on the in-memory Locker (Unlock failures only single-threaded); plus random two-fault plans; on the gated FileStorage every op index x fault for one instance and five two-instance plans (incl. a dead holder's empty / stale lock file) for %d programs = %d runs", len(c09Programs()), total, len(fileTwo), nfile)
	// random plans with two or three faults (paths only reachable after a first fault: retries, rollbacks)
	r := rand.New(rand.NewSource(seed))
	nr := 300
	if tier == "thorough" {
		nr = 5000
	}
	progs := c09Programs()
	for i := 0; i < nr; i++ {
		p := progs[r.Intn(len(progs))]
		cs := mk(p, 1+r.Intn(2))
		cs.Policy, cs.SchedSeed = []string{"rr", "random", "sticky"}[r.Intn(3)], r.Int63()
		cs.Faults = map[string]int{}
		for j := 0; j < 2+r.Intn(2); j++ {
			cs.Faults[fmt.Sprintf("%d:%d", r.Intn(len(cs.Threads)), r.Intn(30))] = 1 + r.Intn(3)
		}
		cs.AllowUnlockFault = false
		if len(cs.Threads) == 2 && r.Intn(3) == 0 {
			cs.CancelWait = map[string]int{fmt.Sprint(r.Intn(2)): r.Intn(6)}
		}
		oo, err := c01RunIssCase(cs)
		if err != nil {
			return fmt.Errorf("%s random plan %v: %v", p.Label, cs.Faults, err)
		}
		c09Emit(w, p.Label, cs, oo)
	}
	return nil
}

// c09Mode: 9 = model comparison + S9; 7 = S9 alone, for the runs whose trace the labels do not determine: an
// async operation whose context ended at the Lock gate reaches doWithRetry's first select with both the
// cancellation and the zero timer ready, so it may or may not run the attempt once.
func c09Mode(cs c01issCase) int {
	if cs.Class == "cancel-at-lock-granted" && len(cs.Threads) > 0 && cs.Threads[0].Async {
		return 7
	}
	return 9
}
