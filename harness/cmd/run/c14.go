//go:build !skip_c14

package main

// C14 — only a Good, in-date OCSP response for that certificate is ever stapled.
//
// Drives the real stapleOCSP (through the verif hook), CacheUnmanagedCertificatePEMBytes,
// CacheManagedCertificate, one maintenance pass (updateOCSPStaples, through the hook) and
// GetCertificate against a harness CA, an httptest OCSP responder serving really signed responses,
// and the in-memory storage double. Every case carries the oracle values (what
// ocsp.ParseResponse makes of every byte string involved) so that the Coq model can be run on the
// same inputs.

import (
	"bytes"
	"context"
	"crypto/tls"
	"crypto/x509"
	"encoding/json"
	"errors"
	"fmt"
	"hash/fnv"
	"math/big"
	"math/rand"
	"net/http"
	"net/url"
	"sort"
	"strings"
	"time"

	"github.com/caddyserver/certmagic"
	"golang.org/x/crypto/ocsp"

	"verifharness/pkg/doubles"
	"verifharness/pkg/emit"
)

func init() { register("C14", runC14) }

// ---------------------------------------------------------------- world

type c14World struct {
	ca, other *doubles.CA
	resp      *doubles.OCSPResponder
	refused   string
	dgLong    *doubles.OCSPDelegate
	dgShort   *doubles.OCSPDelegate // NotAfter = start + 3 h
	dgNoEKU   *doubles.OCSPDelegate // an ordinary certificate of the CA, without id-kp-OCSPSigning
	dgExpired *doubles.OCSPDelegate // NotAfter = start - 1 h
	dgFuture  *doubles.OCSPDelegate // NotBefore = start + 2 h
	dgSelf    *doubles.OCSPDelegate // marker: signed by the CA with its own certificate embedded
	aiaURL    string
	aiaHits   func() int
	// the code's own key functions are only recorded: how often they agree with the
	// independently computed storage keys
	keyAgree, keyDisagree int
	keyDetail             string
	serial    int64
	rnd       *rand.Rand
	w         *emit.Writer
	// oracle validation: ParseResponse(b, issuer) == ParseResponse(b, nil) + signature check
	oracleChecked, oracleBad int
	oracleDetail             string
	otherSerialAccepted      int // responses for another serial accepted by ParseResponse(b, issuer)
	skippedBoundary          int
	// unexpected failures while setting a case up (never a panic: reported as a failed check)
	setupFailures int
	setupDetail   string
	hung          int
}

func (wd *c14World) setupFailed(what string, err error) {
	wd.setupFailures++
	if wd.setupDetail == "" {
		wd.setupDetail = fmt.Sprint(what, ": ", err)
	}
	wd.w.Hist("setup-failed")
}

type c14Cert struct {
	idx      int
	name     string
	nameID   int
	chainPEM []byte // what is handed to certmagic (leaf only for the "noissuer" flavor)
	keyPEM   []byte
	leaf     *x509.Certificate
	url      bool
	flavor   string
	key      string // storage key of the persisted staple (computed by the harness itself)
	managed  bool
	chain    bool // the issuer certificate is part of what is handed to certmagic
}

// c14StapleKey is the storage key of the persisted staple, computed independently of the code
// under test: "ocsp/<name>-<FNV-1a 32 of the PEM chain, hex>" (harness names need no
// sanitising: lower-case letters, digits, '-', '.').
func c14StapleKey(name string, chainPEM []byte) string {
	h := fnv.New32a()
	h.Write(chainPEM)
	return fmt.Sprintf("ocsp/%s-%x", strings.ToLower(name), h.Sum32())
}

func c14SiteKey(issuerKey, name, ext string) string {
	return "certificates/" + issuerKey + "/" + name + "/" + name + ext
}

// recordCodeKeys compares (for the record only) with what the code's own key builders say.
func (wd *c14World) recordCodeKeys(c *c14Cert) {
	code := certmagic.StorageKeys.OCSPStaple(&certmagic.Certificate{Names: []string{strings.ToLower(c.name)}}, c.chainPEM)
	if code == c.key {
		wd.keyAgree++
	} else {
		wd.keyDisagree++
		if wd.keyDetail == "" {
			wd.keyDetail = fmt.Sprintf("code %q, harness %q", code, c.key)
		}
	}
}

func (c *c14Cert) expiry() time.Time { return c.leaf.NotAfter.Truncate(time.Second).Add(time.Second) }

// newLeaf makes a leaf of the given flavor.
func (wd *c14World) newLeaf(flavor, name string) *c14Cert {
	now := time.Now()
	o := doubles.LeafOpts{Names: []string{name}, NotBefore: now.Add(-time.Hour), NotAfter: now.Add(90 * 24 * time.Hour), OCSPServer: []string{wd.resp.URL}}
	switch flavor {
	case "short":
		o.NotAfter = now.Add(3 * 24 * time.Hour)
	case "nourl":
		o.OCSPServer = nil
	case "short-nourl":
		o.NotAfter = now.Add(3 * 24 * time.Hour)
		o.OCSPServer = nil
	case "expired":
		o.NotBefore, o.NotAfter = now.Add(-30*24*time.Hour), now.Add(-time.Hour)
	case "tenday":
		o.NotAfter = now.Add(10 * 24 * time.Hour)
	}
	wd.serial++
	o.Serial = wd.serial
	x := doubles.LeafXOpts{LeafOpts: o}
	switch flavor {
	case "noissuer-aia":
		x.IssuingCertificateURL = []string{wd.aiaURL}
	case "muststaple":
		x.MustStaple = true
	case "deadurl":
		x.OCSPServer = []string{wd.refused + "/dead"}
	}
	chain, leaf, key, err := wd.ca.LeafX(x)
	if err != nil {
		panic(err)
	}
	c := &c14Cert{name: name, chainPEM: chain, keyPEM: key, leaf: leaf, url: len(x.OCSPServer) > 0, flavor: flavor, chain: true}
	if flavor == "noissuer" || flavor == "noissuer-aia" {
		c.chainPEM = chain[:len(chain)-len(wd.ca.CertPEM)]
		c.chain = false
		c.url = flavor == "noissuer-aia" // the issuer can be downloaded, so the responder can be asked
	}
	if flavor == "muststaple" && !doubles.HasMustStaple(leaf) {
		wd.setupFailed("must-staple leaf", errors.New("the TLS feature extension is not in the leaf"))
	}
	c.setKey()
	wd.recordCodeKeys(c)
	return c
}

func (c *c14Cert) setKey() { c.key = c14StapleKey(c.name, c.chainPEM) }

// ---------------------------------------------------------------- responder answers

// c14Ans describes a responder answer (or a persisted staple) to be built for a certificate.
type c14Ans struct {
	Kind   string `json:"kind"` // refused | drop | midbody | garbage | truncated | empty | whitespace | tryLater | resp
	HTTP   int    `json:"http,omitempty"`
	Status int    `json:"status"` // ocsp.Good / Revoked / Unknown
	Serial string `json:"serial,omitempty"`
	This   string `json:"this,omitempty"`
	Next   string `json:"next,omitempty"`
	Signer string `json:"signer,omitempty"` // ca | other | delegate | delegate-short | delegate-noeku | delegate-expired | delegate-future | ca-embedded
	Reason int    `json:"reason,omitempty"`
}

func (a c14Ans) label() string {
	if a.Kind != "resp" {
		return a.Kind
	}
	return fmt.Sprintf("%s/%s/%s-%s/%s", []string{"good", "revoked", "unknown"}[a.Status], a.Serial, a.This, a.Next, a.Signer)
}

var c14This = []string{"zero", "old", "recent", "soon", "far"}
var c14Next = []string{"zero", "past", "plus1h", "plus6h", "week", "at-expiry", "past-expiry", "beyond"}

func c14Time(label string, now time.Time, c *c14Cert) time.Time {
	switch label {
	case "zero":
		return time.Time{}
	case "old":
		return now.Add(-30 * 24 * time.Hour)
	case "recent":
		return now.Add(-2 * time.Hour)
	case "soon":
		return now.Add(2 * time.Hour)
	case "far":
		return now.Add(3 * 24 * time.Hour)
	// placements close to the clock (the currency clause thisUpdate <= now < nextUpdate at its edges)
	case "m5m":
		return now.Add(-5 * time.Minute)
	case "m2m":
		return now.Add(-2 * time.Minute)
	case "m30s":
		return now.Add(-30 * time.Second)
	case "p30s":
		return now.Add(30 * time.Second)
	case "p2m":
		return now.Add(2 * time.Minute)
	case "p5m":
		return now.Add(5 * time.Minute)
	case "past":
		return now.Add(-time.Hour)
	case "plus1h":
		return now.Add(time.Hour)
	case "plus6h":
		return now.Add(6 * time.Hour)
	case "week":
		return now.Add(7 * 24 * time.Hour)
	case "at-expiry":
		return c.expiry()
	case "past-expiry":
		return c.expiry().Add(time.Second)
	case "beyond":
		return c.expiry().Add(30 * 24 * time.Hour)
	}
	panic("time label " + label)
}

// build returns the body for answer a about certificate c (nil for refused / drop).
func (wd *c14World) build(a c14Ans, c *c14Cert, now time.Time) []byte {
	switch a.Kind {
	case "refused", "drop":
		return nil
	case "midbody":
		return []byte("0\x82")
	case "whitespace":
		return []byte(" \r\n\t ")
	case "garbage":
		return []byte("<html>502 Bad Gateway</html>")
	case "empty":
		return []byte{}
	case "tryLater":
		return ocsp.TryLaterErrorResponse
	}
	serial := c.leaf.SerialNumber
	if a.Serial == "other" {
		serial = new(big.Int).Add(serial, big.NewInt(1000000))
	} else if a.Serial == "lower" {
		serial = new(big.Int).Sub(serial, big.NewInt(7))
	}
	ca := wd.ca
	var dg *doubles.OCSPDelegate
	switch a.Signer {
	case "other":
		ca = wd.other
	case "delegate":
		dg = wd.dgLong
	case "delegate-short":
		dg = wd.dgShort
	case "delegate-noeku":
		dg = wd.dgNoEKU
	case "delegate-expired":
		dg = wd.dgExpired
	case "delegate-future":
		dg = wd.dgFuture
	case "ca-embedded":
		dg = wd.dgSelf
	}
	b := ca.OCSPResponse(serial, a.Status, c14Time(a.This, now, c), c14Time(a.Next, now, c), a.Reason, dg)
	if a.Kind == "truncated" {
		return b[:len(b)/2]
	}
	return b
}

// ---------------------------------------------------------------- tables (per case)

type c14Tables struct {
	wd      *c14World
	blobs   [][]byte
	blobIdx map[string]int
	certs   []*c14Cert
	names   map[string]int
}

func (wd *c14World) tables() *c14Tables {
	return &c14Tables{wd: wd, blobIdx: map[string]int{}, names: map[string]int{}}
}

func (t *c14Tables) blob(b []byte) int {
	if i, ok := t.blobIdx[string(b)]; ok {
		return i
	}
	t.blobIdx[string(b)] = len(t.blobs)
	t.blobs = append(t.blobs, append([]byte{}, b...))
	return len(t.blobs) - 1
}

// nearInstant: some instant the code compares the clock with (thisUpdate, nextUpdate, the refresh
// time of freshOCSP, the responder certificate's validity, the certificate's expiry) lies within
// 3 s of the interval [t0, t1] during which the call ran.
func (t *c14Tables) nearInstant(t0, t1 time.Time, c *c14Cert) bool {
	lo, hi := t0.Add(-3*time.Second), t1.Add(3*time.Second)
	in := func(x time.Time) bool { return !x.IsZero() && !x.Before(lo) && !x.After(hi) }
	if in(c.expiry()) || in(c.leaf.NotAfter) {
		return true
	}
	for _, b := range t.blobs {
		r, err := ocsp.ParseResponse(b, nil)
		if err != nil {
			continue
		}
		next := r.NextUpdate
		if in(r.ThisUpdate) || in(next) {
			return true
		}
		if rc := r.Certificate; rc != nil {
			if in(rc.NotBefore) || in(rc.NotAfter) {
				return true
			}
			if rc.NotAfter.Before(next) {
				next = rc.NotAfter
			}
		}
		if in(r.ThisUpdate.Add(next.Sub(r.ThisUpdate) / 2)) {
			return true
		}
	}
	return false
}

// optBlob: -1 for "none"
func (t *c14Tables) optBlob(b []byte, present bool) int {
	if !present {
		return -1
	}
	return t.blob(b)
}

func (t *c14Tables) addCert(c *c14Cert) int {
	c.idx = len(t.certs)
	if id, ok := t.names[c.name]; ok {
		c.nameID = id
	} else {
		c.nameID = len(t.names)
		t.names[c.name] = c.nameID
	}
	t.certs = append(t.certs, c)
	return c.idx
}

func (t *c14Tables) certBySerial(s string) *c14Cert {
	for _, c := range t.certs {
		if c.leaf.SerialNumber.String() == s {
			return c
		}
	}
	return nil
}

// unknownCert registers a certificate the implementation shows but the harness never made or saw
// issued (unexpected behaviour): it becomes part of the observation, so that the comparison
// with the model fails instead of the harness.
func (t *c14Tables) unknownCert(serial, name string, leaf *x509.Certificate) *c14Cert {
	if leaf == nil {
		sn, _ := new(big.Int).SetString(serial, 10)
		if sn == nil {
			sn = big.NewInt(-1)
		}
		now := time.Now()
		leaf = &x509.Certificate{SerialNumber: sn, NotBefore: now.Add(-time.Hour), NotAfter: now.Add(90 * 24 * time.Hour)}
	}
	c := &c14Cert{name: name, leaf: leaf, url: true, flavor: "unknown", chain: true}
	c.setKey()
	t.addCert(c)
	t.wd.w.Hist("hist.UNKNOWN-CERTIFICATE")
	return c
}

func bigTime(t time.Time) string {
	v := new(big.Int).Mul(big.NewInt(t.Unix()), big.NewInt(1000000000))
	return v.Add(v, big.NewInt(int64(t.Nanosecond()))).String()
}

type c14Parsed struct {
	OK     bool   `json:"ok"`
	Status int    `json:"status"`
	Serial string `json:"serial"`
	This   string `json:"this"`
	Next   string `json:"next"`
	Sig    bool   `json:"sig"`
	RC     string `json:"responder_cert,omitempty"`
}

// encode writes blob and cert tables; it also validates the ParseResponse oracle contract.
func (t *c14Tables) encode(e *emit.Enc) []c14Parsed {
	wd := t.wd
	var out []c14Parsed
	e.Len(len(t.blobs))
	for _, b := range t.blobs {
		r, err := ocsp.ParseResponse(b, nil)
		ri, erri := ocsp.ParseResponse(b, wd.ca.Cert)
		wd.oracleChecked++
		if err != nil {
			if erri == nil {
				wd.oracleBad++
				wd.oracleDetail = "accepted with issuer but rejected without"
			}
			e.Bool(false)
			out = append(out, c14Parsed{})
			continue
		}
		if erri == nil && (ri.Status != r.Status || ri.SerialNumber.Cmp(r.SerialNumber) != 0 || !ri.ThisUpdate.Equal(r.ThisUpdate) || !ri.NextUpdate.Equal(r.NextUpdate)) {
			wd.oracleBad++
			wd.oracleDetail = "fields differ between ParseResponse(b,nil) and ParseResponse(b,issuer)"
		}
		e.Bool(true).Int(r.Status).Big(r.SerialNumber.String()).Big(bigTime(r.ThisUpdate)).Big(bigTime(r.NextUpdate))
		rcDesc := ""
		if rc := r.Certificate; rc != nil {
			// the embedded responder certificate, looked at with the standard library only
			eku := false
			for _, u := range rc.ExtKeyUsage {
				if u == x509.ExtKeyUsageOCSPSigning {
					eku = true
				}
			}
			isIssuer := bytes.Equal(rc.Raw, wd.ca.Cert.Raw)
			e.Bool(true).Big(bigTime(rc.NotAfter)).Big(bigTime(rc.NotBefore)).Bool(eku).Bool(isIssuer)
			rcDesc = fmt.Sprintf("notAfter=%s eku=%v issuer=%v", rc.NotAfter.UTC().Format(time.RFC3339), eku, isIssuer)
		} else {
			e.Bool(false)
		}
		e.Bool(erri == nil)
		out = append(out, c14Parsed{OK: true, Status: r.Status, Serial: r.SerialNumber.String(), This: r.ThisUpdate.UTC().Format(time.RFC3339), Next: r.NextUpdate.UTC().Format(time.RFC3339), Sig: erri == nil, RC: rcDesc})
	}
	e.Len(len(t.certs))
	for _, c := range t.certs {
		e.Int(c.nameID).Big(c.leaf.SerialNumber.String()).Big(bigTime(c.expiry())).Z(int64(c.expiry().Sub(c.leaf.NotBefore))).Bool(c.url).Bool(c.chain)
	}
	return out
}

func encOpt(e *emit.Enc, i int) {
	if i < 0 {
		e.Bool(false)
	} else {
		e.Bool(true).Int(i)
	}
}

// c14Env is the wire form of the model's env.
type c14Env struct {
	Ans                       int // 0 refused, 1 drop, 2 bytes
	Blob                      int
	LoadErr, StoreErr, DelErr bool
}

func encEnv(e *emit.Enc, v c14Env) {
	e.Int(v.Ans)
	if v.Ans == 2 {
		e.Int(v.Blob)
	}
	e.Bool(v.LoadErr).Bool(v.StoreErr).Bool(v.DelErr)
}

// mkEnv builds the responder answer and registers its body.
func (t *c14Tables) mkEnv(a c14Ans, c *c14Cert, now time.Time, f c14Faults) (c14Env, doubles.OCSPAnswer) {
	ev := c14Env{LoadErr: f.Load, StoreErr: f.Store, DelErr: f.Del}
	switch a.Kind {
	case "refused":
		ev.Ans = 0
		return ev, doubles.OCSPAnswer{}
	case "drop":
		ev.Ans = 1
		return ev, doubles.OCSPAnswer{Drop: true}
	case "midbody":
		// the request is seen, the body cannot be read to its end: as good as no answer
		ev.Ans = 1
		return ev, doubles.OCSPAnswer{Cut: true, Body: t.wd.build(a, c, now)}
	}
	body := t.wd.build(a, c, now)
	ev.Ans, ev.Blob = 2, t.blob(body)
	return ev, doubles.OCSPAnswer{Status: a.HTTP, Body: body}
}

type c14Faults struct {
	Load  bool `json:"load,omitempty"`
	Store bool `json:"store,omitempty"`
	Del   bool `json:"del,omitempty"`
}

var errInjected = errors.New("injected storage fault")

// safely runs a call into the code under test; a panic of that code is an observation, not a
// failure of the harness.
func safely(f func()) (panicked string) {
	defer func() {
		if r := recover(); r != nil {
			panicked = fmt.Sprint("panic: ", r)
		}
	}()
	f()
	return ""
}

func c14Hook(keyPrefix string, f func(key string) c14Faults) doubles.Hook {
	return func(op *doubles.Op) error {
		if !strings.HasPrefix(op.Key, keyPrefix) {
			return nil
		}
		ft := f(op.Key)
		switch op.Kind {
		case "Load":
			if ft.Load {
				return errInjected
			}
		case "Store":
			if ft.Store {
				return errInjected
			}
		case "Delete":
			if ft.Del {
				return errInjected
			}
		}
		return nil
	}
}

func sopCodes(ops []doubles.Op, key string) []int64 {
	var out []int64
	for _, o := range ops {
		if o.Key != key {
			continue
		}
		switch o.Kind {
		case "Load":
			out = append(out, 0)
		case "Store":
			out = append(out, 1)
		case "Delete":
			out = append(out, 2)
		default:
			out = append(out, 9)
		}
	}
	return out
}

// ---------------------------------------------------------------- kind 0: one stapleOCSP call

type c14CallIn struct {
	Flavor   string    `json:"flavor"`
	Disabled bool      `json:"disabled,omitempty"`
	Override string    `json:"override,omitempty"` // "" | "off" (responder disabled by override)
	Via      string    `json:"via,omitempty"`      // "" | "proxy" (OCSPConfig.HTTPProxy) | "override" (ResponderOverrides to the live responder)
	NilPEM   bool      `json:"nil_pem,omitempty"`
	Stored   string    `json:"stored"` // label of the persisted state
	StoredA  *c14Ans   `json:"stored_a,omitempty"`
	Prev     *c14Ans   `json:"prev,omitempty"` // an earlier call with this answer established the certificate's OCSP state
	Ans      c14Ans    `json:"ans"`
	Faults   c14Faults `json:"faults"`
}

var c14Stored = map[string]*c14Ans{
	"absent":             nil,
	"fresh":              {Kind: "resp", Status: ocsp.Good, Serial: "right", This: "recent", Next: "week", Signer: "ca"},
	"fresh-delegate":     {Kind: "resp", Status: ocsp.Good, Serial: "right", This: "recent", Next: "week", Signer: "delegate"},
	"delegate-short":     {Kind: "resp", Status: ocsp.Good, Serial: "right", This: "old", Next: "week", Signer: "delegate-short"},
	"stale":              {Kind: "resp", Status: ocsp.Good, Serial: "right", This: "old", Next: "plus6h", Signer: "ca"},
	"expired":            {Kind: "resp", Status: ocsp.Good, Serial: "right", This: "old", Next: "past", Signer: "ca"},
	"no-next":            {Kind: "resp", Status: ocsp.Good, Serial: "right", This: "recent", Next: "zero", Signer: "ca"},
	"corrupt":            {Kind: "garbage"},
	"corrupt-truncated":  {Kind: "truncated", Status: ocsp.Good, Serial: "right", This: "recent", Next: "week", Signer: "ca"},
	"corrupt-empty":      {Kind: "empty"},
	"corrupt-trylater":   {Kind: "tryLater"},
	"fresh-other-serial": {Kind: "resp", Status: ocsp.Good, Serial: "other", This: "recent", Next: "week", Signer: "ca"},
	"fresh-lower-serial": {Kind: "resp", Status: ocsp.Good, Serial: "lower", This: "recent", Next: "week", Signer: "ca"},
	"fresh-revoked":      {Kind: "resp", Status: ocsp.Revoked, Serial: "right", This: "recent", Next: "week", Signer: "ca"},
	"fresh-unknown":      {Kind: "resp", Status: ocsp.Unknown, Serial: "right", This: "recent", Next: "week", Signer: "ca"},
	"future":             {Kind: "resp", Status: ocsp.Good, Serial: "right", This: "soon", Next: "week", Signer: "ca"},
	"future-inverted":    {Kind: "resp", Status: ocsp.Good, Serial: "right", This: "far", Next: "past", Signer: "ca"},
	"fresh-overlong":     {Kind: "resp", Status: ocsp.Good, Serial: "right", This: "recent", Next: "beyond", Signer: "ca"},
	"fresh-at-expiry":    {Kind: "resp", Status: ocsp.Good, Serial: "right", This: "recent", Next: "at-expiry", Signer: "ca"},
	// a persisted staple that does not verify against the issuer (fixed finding C14-forged-persisted-staple)
	"fresh-forged": {Kind: "resp", Status: ocsp.Good, Serial: "right", This: "recent", Next: "week", Signer: "other"},
	// signed by a certificate of the CA that is not (or no longer / not yet) a responder certificate
	"fresh-delegate-noeku":   {Kind: "resp", Status: ocsp.Good, Serial: "right", This: "recent", Next: "week", Signer: "delegate-noeku"},
	"fresh-delegate-expired": {Kind: "resp", Status: ocsp.Good, Serial: "right", This: "recent", Next: "week", Signer: "delegate-expired"},
	"fresh-ca-embedded":      {Kind: "resp", Status: ocsp.Good, Serial: "right", This: "recent", Next: "week", Signer: "ca-embedded"},
}

// c14StoredKeys: the persisted states used by the generators.
func c14StoredKeys() []string { return emit.SortedKeys(c14Stored) }

func c14Class(in c14CallIn) string {
	a := in.Ans
	if in.Stored == "fresh-forged" && (in.Flavor == "noissuer" || in.Flavor == "noissuer-aia") {
		return "forged-persisted-no-chain"
	}
	if in.Stored == "fresh" && in.Flavor == "noissuer-aia" && a.Kind == "drop" {
		return "chainless-persisted-not-reused"
	}
	if in.Stored == "absent" && a.Kind == "resp" && a.Status == ocsp.Good && in.Flavor == "normal" && !in.Disabled &&
		a.Serial == "right" && a.This == "recent" && a.Next == "week" {
		switch a.Signer {
		case "delegate-noeku":
			return "good-unauthorized-responder"
		case "delegate-expired":
			return "good-expired-responder"
		}
	}
	if in.Stored == "fresh-forged" && in.Flavor == "normal" && a.Kind == "drop" {
		return "forged-persisted"
	}
	if in.Stored == "absent" && a.Kind == "resp" && a.Status == ocsp.Good && a.Signer == "ca" && in.Flavor == "normal" && !in.Disabled {
		switch {
		case (a.Serial == "other" || a.Serial == "lower") && a.This == "recent" && a.Next == "week":
			return "good-other-serial"
		case a.Serial == "right" && a.This == "old" && a.Next == "past":
			return "good-expired"
		case a.Serial == "right" && a.This == "soon" && a.Next == "week":
			return "good-future"
		}
	}
	return "call"
}

type c14View struct {
	Staple int     `json:"staple"` // blob index, -1 none
	OCSP   int     `json:"ocsp"`
	Stored int     `json:"stored"`
	Seen   bool    `json:"seen"`
	Err    string  `json:"err,omitempty"`
	Ops    []int64 `json:"ops,omitempty"`
}

func (wd *c14World) runCall(in c14CallIn) {
	defer func() {
		if r := recover(); r != nil {
			wd.setupFailed("panic while running a call case", fmt.Errorf("%v", r))
		}
	}()
	t := wd.tables()
	c := wd.newLeaf(in.Flavor, fmt.Sprintf("c%d.example", wd.serial+1))
	t.addCert(c)
	if in.Override == "off" {
		c.url = false
	}
	b := doubles.NewMemBackend()
	st := b.Handle("i1")
	ctx := context.Background()
	cert, err := certmagic.VerifMakeCertificate(c.chainPEM, c.keyPEM)
	if err != nil {
		wd.setupFailed("makeCertificate on a harness leaf", err)
		return
	}
	cfg := certmagic.OCSPConfig{DisableStapling: in.Disabled}
	if in.Override == "off" && len(c.leaf.OCSPServer) > 0 {
		cfg.ResponderOverrides = map[string]string{c.leaf.OCSPServer[0]: ""}
	}
	live := wd.resp.URL // where requests must go to reach the responder double
	dead := in.Flavor == "deadurl" && in.Via == ""
	pem := c.chainPEM
	if in.NilPEM {
		pem = nil
	}
	call := func(a c14Ans, f c14Faults, emitIt bool) {
		now := time.Now()
		ev, ans := t.mkEnv(a, c, now, f)
		ocfg := cfg
		if dead && (a.Kind != "refused") {
			a = c14Ans{Kind: "refused"} // nothing listens at the certificate's responder URL
			ev, ans = t.mkEnv(a, c, now, f)
		}
		target := live
		if a.Kind == "refused" {
			target = wd.refused
		}
		switch {
		case in.Override == "off" || len(c.leaf.OCSPServer) == 0:
		case in.Via == "proxy":
			pu, _ := url.Parse(target)
			ocfg.HTTPProxy = func(*http.Request) (*url.URL, error) { return pu, nil }
		case in.Via == "override" || a.Kind == "refused":
			ocfg.ResponderOverrides = map[string]string{c.leaf.OCSPServer[0]: target}
		}
		wd.resp.SetAnswer(func(*big.Int) doubles.OCSPAnswer { return ans })
		b.Log.Hook = c14Hook("ocsp/", func(string) c14Faults { return f })
		pre := certmagic.VerifViewCert(cert)
		sv, sok := b.Get(c.key)
		preV := c14View{Staple: t.optBlob(pre.Staple, pre.Staple != nil), OCSP: t.optBlob(pre.OCSPRaw, pre.HasOCSP), Stored: t.optBlob(sv, sok)}
		mark, lmark := wd.resp.Mark(), len(b.Log.Snapshot())
		var serr error
		pmsg := safely(func() { serr = certmagic.VerifStapleOCSP(ctx, ocfg, st, &cert, pem) })
		t1 := time.Now()
		b.Log.Hook = nil
		post := certmagic.VerifViewCert(cert)
		sv2, sok2 := b.Get(c.key)
		obs := c14View{Staple: t.optBlob(post.Staple, post.Staple != nil), OCSP: t.optBlob(post.OCSPRaw, post.HasOCSP), Stored: t.optBlob(sv2, sok2),
			Seen: len(wd.resp.Since(mark)) > 0, Ops: sopCodes(b.Log.Snapshot()[lmark:], c.key)}
		if serr != nil {
			obs.Err = serr.Error()
		}
		if pmsg != "" {
			obs.Err = pmsg
			wd.w.Hist("call.PANIC")
		}
		if !emitIt {
			return
		}
		if t1.Sub(now) > 5*time.Minute || t.nearInstant(now, t1, c) {
			// the verdict would depend on where in [now, t1] the code read the clock
			wd.skippedBoundary++
			wd.w.Hist("call.skipped-boundary")
			return
		}
		e := &emit.Enc{}
		parsed := t.encode(e)
		e.Int(0).Bool(in.Disabled).Int(c.idx)
		encOpt(e, preV.Staple)
		encOpt(e, preV.OCSP)
		encOpt(e, preV.Stored)
		encEnv(e, ev)
		e.Big(bigTime(now))
		encOpt(e, obs.Staple)
		encOpt(e, obs.OCSP)
		encOpt(e, obs.Stored)
		e.Bool(obs.Seen).Bool(serr != nil).ZList(obs.Ops).Bool(pmsg != "")
		class := c14Class(in)
		nontrivial := !in.Disabled && (preV.Stored >= 0 || (c.url && a.Kind != "refused"))
		wd.w.Add(emit.Case{Desc: map[string]any{"kind": "call", "class": class, "flavor": in.Flavor, "stored": in.Stored, "ans": a.label(), "via": in.Via},
			In: in, Obs: map[string]any{"pre": preV, "post": obs, "blobs": parsed}, Wire: e.String(), Nontrivial: nontrivial,
			Key: fmt.Sprint("call ", in.Flavor, in.Override, in.Via, in.Disabled, in.NilPEM, in.Stored, in.Prev != nil, a.label(), f)})
		if in.Via != "" {
			wd.w.Hist("call.via=" + in.Via)
		}
		wd.w.Hist("call.flavor=" + in.Flavor)
		wd.w.Hist("call.stored=" + in.Stored)
		if a.Kind == "resp" {
			wd.w.Hist("call.ans.status=" + []string{"good", "revoked", "unknown"}[a.Status])
			wd.w.Hist("call.ans.serial=" + a.Serial)
			wd.w.Hist("call.ans.this=" + a.This)
			wd.w.Hist("call.ans.next=" + a.Next)
			wd.w.Hist("call.ans.signer=" + a.Signer)
		} else {
			wd.w.Hist("call.ans=" + a.Kind)
		}
		if a.HTTP != 0 {
			wd.w.Hist(fmt.Sprintf("call.ans.http=%d", a.HTTP))
		}
		if f.Load || f.Store || f.Del {
			wd.w.Hist("call.storage-fault")
		}
		if in.Prev != nil {
			wd.w.Hist("call.with-previous-state")
		}
		if obs.Staple >= 0 && obs.Staple != preV.Staple {
			wd.w.Hist("call.outcome=stapled")
		} else if serr != nil {
			wd.w.Hist("call.outcome=error")
		} else {
			wd.w.Hist("call.outcome=nil-no-new-staple")
		}
	}
	if in.Prev != nil {
		call(*in.Prev, c14Faults{}, false)
		b.Remove(c.key)
	}
	sa := in.StoredA
	if sa == nil {
		sa = c14Stored[in.Stored]
	}
	if sa != nil {
		b.Put(c.key, wd.build(*sa, c, time.Now()))
	}
	call(in.Ans, in.Faults, true)
}

// ---------------------------------------------------------------- kind 1: histories

type c14HOp struct {
	Op       string            `json:"op"` // tamper | cache | maintain | restart | handshake | manage
	Cert     int               `json:"cert,omitempty"`
	Stored   string            `json:"stored,omitempty"`
	Disabled bool              `json:"disabled,omitempty"`
	Ans      map[string]c14Ans `json:"ans,omitempty"` // per certificate index (as string); "new" for certificates issued during the op
	Faults   c14Faults         `json:"faults,omitempty"`
	Renew    string            `json:"renew,omitempty"` // ok | fail | reload-fail
}

type c14Plan struct {
	Certs []struct {
		Flavor  string `json:"flavor"`
		Managed bool   `json:"managed"`
	} `json:"certs"`
	Ops []c14HOp `json:"ops"`
	// a `<name>.key.compromised` file of an earlier key-compromise incident is already in storage
	// for every managed name when the history begins
	PreCompromised bool `json:"pre_compromised,omitempty"`
}

type c14Hist struct {
	wd         *c14World
	t          *c14Tables
	b          *doubles.MemBackend
	iss        *doubles.OCSPIssuer
	cfg        *certmagic.Config
	cache      *certmagic.Cache
	failIssue  bool
	issued     []*c14Cert // certificates issued during the current op
	failed     []string   // names whose issuance was refused during the current op
	flavorNext string
}

func (h *c14Hist) newInstance() {
	if h.cache != nil {
		h.cache.Stop()
	}
	h.cfg, h.cache = doubles.NewConfig(h.b.Handle("i1"), certmagic.Config{DisableARI: true}, certmagic.CacheOptions{}, h.iss)
}

func (h *c14Hist) snapshot(e *emit.Enc) (any, map[int]bool) {
	t := h.t
	views := certmagic.VerifCacheOCSPSnapshot(h.cache)
	type ent struct {
		Cert    int  `json:"cert"`
		Managed bool `json:"managed"`
		Staple  int  `json:"staple"`
		OCSP    int  `json:"ocsp"`
	}
	var ents []ent
	inCache := map[int]bool{}
	for _, v := range views {
		c := t.certBySerial(v.Serial)
		if c == nil {
			name := "unknown.example"
			if len(v.Names) > 0 {
				name = v.Names[0]
			}
			c = t.unknownCert(v.Serial, name, nil)
		}
		ents = append(ents, ent{c.idx, v.Managed, t.optBlob(v.Staple, v.Staple != nil), t.optBlob(v.OCSPRaw, v.HasOCSP)})
		inCache[c.idx] = true
	}
	sort.Slice(ents, func(i, j int) bool { return ents[i].Cert < ents[j].Cert })
	e.Len(len(ents))
	for _, x := range ents {
		e.Int(x.Cert).Bool(x.Managed)
		encOpt(e, x.Staple)
		encOpt(e, x.OCSP)
	}
	type sto struct {
		Cert int `json:"cert"`
		Blob int `json:"blob"`
	}
	var stos []sto
	for _, c := range t.certs {
		if v, ok := h.b.Get(c.key); ok {
			stos = append(stos, sto{c.idx, t.blob(v)})
		}
	}
	e.Len(len(stos))
	for _, s := range stos {
		e.Int(s.Cert).Int(s.Blob)
	}
	return map[string]any{"cache": ents, "store": stos}, inCache
}

func (h *c14Hist) served(e *emit.Enc) any {
	t := h.t
	type sv struct {
		Name   int `json:"name"`
		Cert   int `json:"cert"`
		Staple int `json:"staple"`
	}
	var out []sv
	names := make([]string, len(t.names))
	for n, id := range t.names {
		names[id] = n
	}
	e.Len(len(names))
	for id, n := range names {
		hello, done := doubles.Hello(n)
		tc, err := h.cfg.GetCertificate(hello)
		done()
		e.Int(id)
		if err != nil || tc == nil || tc.Leaf == nil {
			e.Bool(false)
			out = append(out, sv{id, -1, -1})
			continue
		}
		c := t.certBySerial(tc.Leaf.SerialNumber.String())
		if c == nil {
			c = t.unknownCert(tc.Leaf.SerialNumber.String(), n, tc.Leaf)
		}
		s := t.optBlob(tc.OCSPStaple, tc.OCSPStaple != nil)
		e.Bool(true).Int(c.idx)
		encOpt(e, s)
		out = append(out, sv{id, c.idx, s})
	}
	return out
}

// runHist executes a plan and emits one case. An operation of the real code that does not come
// back (for instance a renewal retried forever) must not stall the check: the history is abandoned
// after a deadline and reported as a failed oracle check.
func (wd *c14World) runHist(plan c14Plan, desc map[string]any) {
	if wd.hung >= 2 {
		return // every further history would cost another deadline
	}
	done := make(chan struct{})
	abandoned := new(bool)
	go func() {
		defer close(done)
		wd.runHist1(plan, desc, abandoned)
	}()
	select {
	case <-done:
	case <-time.After(90 * time.Second):
		*abandoned = true
		pj, _ := json.Marshal(plan)
		wd.setupFailed("history did not finish within 90 s (an operation of the real code hangs): "+string(pj), errors.New("abandoned"))
		wd.hung++
	}
}

func (wd *c14World) runHist1(plan c14Plan, desc map[string]any, abandoned *bool) {
	defer func() {
		if r := recover(); r != nil {
			pj, _ := json.Marshal(plan)
			wd.setupFailed("panic while running history "+string(pj), fmt.Errorf("%v", r))
		}
	}()
	h := &c14Hist{wd: wd, t: wd.tables(), b: doubles.NewMemBackend()}
	t := h.t
	h.iss = &doubles.OCSPIssuer{Key: "ocspiss", CA: wd.ca, OCSPServer: []string{wd.resp.URL}}
	h.iss.Fail = func(n int, names []string) error {
		if h.failIssue {
			h.failed = append(h.failed, names...)
			return certmagic.ErrNoRetry{Err: errors.New("issuer double: refused")}
		}
		return nil
	}
	ctx := context.Background()
	base := fmt.Sprintf("h%d", wd.serial+1)
	// the issuer signs through CA.Leaf (serials from the CA's own counter, far below ours)
	h.iss.Issued = func(n int, names []string, chain []byte, leaf *x509.Certificate) {
		c := &c14Cert{name: names[0], chainPEM: chain, leaf: leaf, url: true, flavor: "issued", managed: true, chain: true}
		c.setKey()
		wd.recordCodeKeys(c)
		t.addCert(c)
		h.issued = append(h.issued, c)
	}
	mustStaple := map[string]bool{} // managed names whose certificates (renewals included) carry must-staple
	h.iss.MustStaple = func(names []string) bool { return len(names) > 0 && mustStaple[names[0]] }
	h.newInstance()
	defer func() { h.cache.Stop() }()
	// the plan's certificates
	var planned []*c14Cert
	for i, pc := range plan.Certs {
		name := fmt.Sprintf("%s-%d.example", base, i)
		if pc.Managed {
			// issued through the real obtain path so that storage holds a loadable resource
			h.iss.NotAfter = nil
			switch pc.Flavor {
			case "muststaple":
				mustStaple[name] = true
			case "short":
				h.iss.NotAfter = func() time.Time { return time.Now().Add(3 * 24 * time.Hour) }
			case "tenday":
				h.iss.NotAfter = func() time.Time { return time.Now().Add(10 * 24 * time.Hour) }
			}
			h.issued = nil
			if err := h.cfg.ObtainCertSync(ctx, name); err != nil || len(h.issued) != 1 {
				wd.setupFailed("ObtainCertSync with the issuer double", fmt.Errorf("%v (%d issued)", err, len(h.issued)))
				return
			}
			h.iss.NotAfter = nil
			h.issued[0].flavor = pc.Flavor
			if pc.Flavor == "muststaple" && !doubles.HasMustStaple(h.issued[0].leaf) {
				wd.setupFailed("must-staple leaf from the issuer double", errors.New("the TLS feature extension is not in the leaf"))
			}
			planned = append(planned, h.issued[0])
		} else {
			c := wd.newLeaf(pc.Flavor, name)
			t.addCert(c)
			planned = append(planned, c)
		}
	}
	if plan.PreCompromised {
		for _, c := range planned {
			if c.managed {
				h.b.Put(c14SiteKey(h.iss.IssuerKey(), c.name, ".key")+".compromised", []byte("key of an earlier incident"))
			}
		}
		wd.w.Hist("hist.pre-existing-compromised-key-file")
	}
	e := &emit.Enc{}
	var steps []any
	nsteps := 0
	body := &emit.Enc{}
	// cachedByName: what the implementation's cache really holds now, by name (never what the
	// harness expects it to hold)
	cachedByName := func() map[string]*c14Cert {
		m := map[string]*c14Cert{}
		for _, v := range certmagic.VerifCacheOCSPSnapshot(h.cache) {
			if c := t.certBySerial(v.Serial); c != nil {
				if old, ok := m[c.name]; !ok || c.idx > old.idx {
					m[c.name] = c
				}
			}
		}
		return m
	}
	feat := map[string]bool{}
	// own: per certificate, the staple the implementation itself persisted (a successful Store of
	// exactly those bytes under ANY ocsp/ key while it attached them) and the harness has not
	// touched since; prevStaple: the staples of the previous snapshot
	own := map[int][]byte{}
	ownKey := map[int]string{}
	prevStaple := map[int]string{}
	// observe encodes what can be seen after an operation (or in the middle of one): the cache,
	// the persisted staples, the calls made since (mark, lmark), and what GetCertificate serves
	type retObs struct {
		ok     bool
		cert   int
		staple int
	}
	observe := func(se *emit.Enc, opName string, ownRef int, ret *retObs, panicked string, callCerts []*c14Cert, mark, lmark int) {
		if *abandoned {
			panic("history abandoned")
		}
		encOpt(se, ownRef)
		if ret == nil || !ret.ok {
			se.Bool(false)
		} else {
			se.Bool(true).Int(ret.cert)
			encOpt(se, ret.staple)
		}
		se.Bool(panicked != "")
		if panicked != "" {
			wd.w.Hist("hist.PANIC")
		}
		snap, _ := h.snapshot(se)
		reqs := wd.resp.Since(mark)
		ops := h.b.Log.Snapshot()[lmark:]
		// what the implementation itself later writes to (or deletes at) the key where it persisted
		// a certificate's own staple supersedes that staple: it is no longer "what it persisted"
		for idx, k := range ownKey {
			for _, o := range ops {
				if o.Key == k && o.Err == "" && ((o.Kind == "Store" && o.Digest != doubles.Digest(own[idx])) || o.Kind == "Delete") {
					delete(own, idx)
					delete(ownKey, idx)
					break
				}
			}
		}
		curStaple := map[int]string{}
		for _, v := range certmagic.VerifCacheOCSPSnapshot(h.cache) {
			c := t.certBySerial(v.Serial)
			if c == nil || v.Staple == nil {
				continue
			}
			curStaple[c.idx] = string(v.Staple)
			if prevStaple[c.idx] == string(v.Staple) {
				continue
			}
			for _, o := range ops { // newly attached: did the implementation persist it (anywhere)?
				if o.Kind == "Store" && strings.HasPrefix(o.Key, "ocsp/") && o.Err == "" && o.Digest == doubles.Digest(v.Staple) {
					own[c.idx] = append([]byte(nil), v.Staple...)
					ownKey[c.idx] = o.Key
				}
			}
		}
		prevStaple = curStaple
		type cl struct {
			Cert int     `json:"cert"`
			Seen bool    `json:"seen"`
			Ops  []int64 `json:"ops"`
		}
		var cls []cl
		sort.Slice(callCerts, func(i, j int) bool { return callCerts[i].idx < callCerts[j].idx })
		for _, c := range callCerts {
			seen := false
			for _, r := range reqs {
				if r.Serial == c.leaf.SerialNumber.String() {
					seen = true
				}
			}
			so := sopCodes(ops, c.key)
			if seen || len(so) > 0 {
				cls = append(cls, cl{c.idx, seen, so})
			}
		}
		se.Len(len(cls))
		for _, x := range cls {
			se.Int(x.Cert).Bool(x.Seen).ZList(x.Ops)
		}
		sv := h.served(se)
		st := map[string]any{"op": opName, "after": snap, "calls": cls, "served": sv}
		if panicked != "" {
			st["panicked"] = panicked
		}
		if ret != nil {
			st["returned"] = map[string]any{"ok": ret.ok, "cert": ret.cert, "staple": ret.staple}
		}
		steps = append(steps, st)
		body.Big(se.String())
		nsteps++
		wd.w.Hist("hist.op=" + opName)
	}
	for _, op := range plan.Ops {
		se := &emit.Enc{}
		ownRef := -1
		var ret *retObs
		pmsg := ""
		now := time.Now()
		mark, lmark := wd.resp.Mark(), len(h.b.Log.Snapshot())
		h.issued, h.failed, h.failIssue = nil, nil, false
		var callCerts []*c14Cert // certificates whose staple key may be touched
		opName := op.Op
		switch op.Op {
		case "tamper":
			c := planned[op.Cert]
			if cur := cachedByName()[c.name]; cur != nil && c.managed {
				c = cur
			}
			sa := c14Stored[op.Stored]
			delete(own, c.idx) // the harness interferes with this certificate's persisted staple
			delete(ownKey, c.idx)
			se.Int(0).Int(c.idx)
			if sa == nil {
				h.b.Remove(c.key)
				se.Bool(false)
			} else {
				v := wd.build(*sa, c, now)
				h.b.Put(c.key, v)
				se.Bool(true).Int(t.blob(v))
			}
			feat["stored="+op.Stored] = true
		case "cache":
			c := planned[op.Cert]
			h.cfg.OCSP.DisableStapling = op.Disabled
			// which certificate will be cached: the planned one, or for a managed name whatever storage holds now
			if c.managed {
				if cur := h.storedCertFor(c.name); cur != nil {
					c = cur
				}
			}
			a := op.Ans[fmt.Sprint(op.Cert)]
			ev, ans := t.mkEnv(a, c, now, op.Faults)
			if ob, ok := own[c.idx]; ok {
				ownRef = t.blob(ob)
				wd.w.Hist("hist.cache.own-persisted-staple")
			}
			h.cfg.OCSP.ResponderOverrides = nil
			if a.Kind == "refused" {
				h.cfg.OCSP.ResponderOverrides = map[string]string{wd.resp.URL: wd.refused}
			}
			wd.resp.SetAnswer(func(*big.Int) doubles.OCSPAnswer { return ans })
			h.b.Log.Hook = c14Hook("ocsp/", func(string) c14Faults { return op.Faults })
			var err error
			pmsg = safely(func() {
				if c.managed {
					_, err = h.cfg.CacheManagedCertificate(ctx, c.name)
				} else {
					_, err = h.cfg.CacheUnmanagedCertificatePEMBytes(ctx, c.chainPEM, c.keyPEM, nil)
				}
			})
			h.b.Log.Hook = nil
			if err != nil && pmsg == "" {
				_, hasKey := h.b.Get(c14SiteKey(h.iss.IssuerKey(), c.name, ".key"))
				if c.managed && (!hasKey || h.storedCertFor(c.name) == nil) {
					// nothing loadable in storage for the name (e.g. its key was moved away after a
					// key-compromise revocation that could not be replaced): not an OCSP matter
					wd.w.Hist("hist.cache.managed-not-loadable")
					continue
				}
				// otherwise the failure is an observation: the certificate is not in the cache, which
				// the monitor (S2: caching never fails because of OCSP) will report
				wd.w.Hist("hist.cache.FAILED")
			}
			se.Int(1).Int(c.idx).Bool(c.managed).Bool(op.Disabled)
			encEnv(se, ev)
			se.Big(bigTime(now))
			callCerts = []*c14Cert{c}
			feat["cache.ans="+a.label()] = true
			wd.w.Hist("hist.cache.ans=" + a.Kind)
		case "maintain", "handshake", "manage":
			// one pass over the cache: the maintenance tick looks at every certificate; a handshake
			// (with on-demand management) or manageOne at one
			var target *c14Cert
			midDone := false
			if op.Op != "maintain" {
				pc := planned[op.Cert]
				if !pc.managed {
					continue
				}
				target = cachedByName()[pc.name]
				if op.Op == "handshake" {
					managedInCache := false
					for _, v := range certmagic.VerifCacheOCSPSnapshot(h.cache) {
						if target != nil && v.Serial == target.leaf.SerialNumber.String() && v.Managed {
							managedInCache = true
						}
					}
					if target == nil || !managedInCache || target.flavor == "expired" {
						wd.w.Hist("hist.handshake.skipped-not-cached")
						continue
					}
				} else {
					// manageOne does nothing if a managed certificate for the name is in the cache,
					// and obtains one if storage has none: only the load-from-storage path is modelled
					if target != nil {
						wd.w.Hist("hist.manage.skipped-already-cached")
						continue
					}
					target = h.storedCertFor(pc.name)
					_, hasKey := h.b.Get(c14SiteKey(h.iss.IssuerKey(), pc.name, ".key"))
					if target == nil || !hasKey {
						wd.w.Hist("hist.manage.skipped-not-in-storage")
						continue
					}
				}
			}
			h.cfg.OCSP.DisableStapling = op.Disabled
			h.cfg.OCSP.ResponderOverrides = nil
			// per certificate answers, by serial; "new" for certificates issued during the pass
			type pa struct {
				ev  c14Env
				ans doubles.OCSPAnswer
			}
			bySerial := map[string]pa{}
			views := certmagic.VerifCacheOCSPSnapshot(h.cache)
			var cached []*c14Cert
			for _, v := range views {
				cached = append(cached, t.certBySerial(v.Serial))
			}
			if op.Op == "manage" {
				cached = append(cached, target) // it is about to be cached
			}
			sort.Slice(cached, func(i, j int) bool { return cached[i].idx < cached[j].idx })
			allRefused := true
			for _, c := range cached {
				a, ok := op.Ans[fmt.Sprint(c.idx)]
				if !ok {
					a = op.Ans["*"]
				}
				if a.Kind == "refused" {
					a.Kind = "drop" // a refused connection is per URL, not per certificate
				}
				ev, ans := t.mkEnv(a, c, now, op.Faults)
				bySerial[c.leaf.SerialNumber.String()] = pa{ev, ans}
				allRefused = false
				wd.w.Hist("hist.maintain.ans=" + a.Kind)
				if a.Kind == "resp" {
					wd.w.Hist("hist.maintain.ans.status=" + []string{"good", "revoked", "unknown"}[a.Status])
				}
			}
			_ = allRefused
			newA := op.Ans["new"]
			if newA.Kind == "" {
				newA = c14Ans{Kind: "resp", Status: ocsp.Good, Serial: "right", This: "recent", Next: "week", Signer: "ca"}
			}
			if newA.Kind == "refused" {
				newA.Kind = "drop"
			}
			newEnvs := map[string]c14Env{}
			wd.resp.SetAnswer(func(serial *big.Int) doubles.OCSPAnswer {
				if serial == nil {
					return doubles.OCSPAnswer{Status: 400, Body: []byte("bad request")}
				}
				if p, ok := bySerial[serial.String()]; ok {
					return p.ans
				}
				// a certificate issued during this pass
				for _, c := range h.issued {
					if c.leaf.SerialNumber.Cmp(serial) == 0 {
						ev, ans := t.mkEnv(newA, c, now, c14Faults{})
						newEnvs[serial.String()] = ev
						return ans
					}
				}
				return doubles.OCSPAnswer{Status: 500, Body: []byte("unknown serial")}
			})
			h.failIssue = op.Renew == "fail"
			storedCrt := map[string]bool{}
			faultKeys := map[string]bool{}
			for _, c := range cached {
				faultKeys[c.key] = true
			}
			h.b.Log.Hook = func(o *doubles.Op) error {
				if strings.HasPrefix(o.Key, "ocsp/") {
					if !faultKeys[o.Key] {
						return nil
					}
					return c14Hook("ocsp/", func(string) c14Faults { return op.Faults })(o)
				}
				if op.Renew == "reload-fail" && strings.HasSuffix(o.Key, ".crt") {
					if o.Kind == "Store" {
						storedCrt[o.Key] = true
					} else if o.Kind == "Load" && storedCrt[o.Key] {
						return errInjected
					}
				}
				return nil
			}
			switch op.Op {
			case "maintain":
				pmsg = safely(func() { certmagic.VerifUpdateOCSPStaples(ctx, h.cache) })
			case "handshake":
				h.cfg.OnDemand = &certmagic.OnDemandConfig{DecisionFunc: func(context.Context, string) error { return nil }}
				hello, done := doubles.Hello(target.name)
				var tc *tls.Certificate
				var herr error
				pmsg = safely(func() { tc, herr = h.cfg.GetCertificate(hello) })
				done()
				// a forced renewal runs in the background: wait for it to finish
				for i := 0; i < 2000 && certmagic.VerifOnDemandRenewalPending(target.name); i++ {
					time.Sleep(5 * time.Millisecond)
				}
				h.cfg.OnDemand = nil
				ret = &retObs{}
				if herr == nil && tc != nil && tc.Leaf != nil {
					rc := t.certBySerial(tc.Leaf.SerialNumber.String())
					if rc == nil {
						rc = t.unknownCert(tc.Leaf.SerialNumber.String(), target.name, tc.Leaf)
					}
					ret = &retObs{ok: true, cert: rc.idx, staple: t.optBlob(tc.OCSPStaple, tc.OCSPStaple != nil)}
				}
			case "manage":
				// manageOne = CacheManagedCertificate, then the reaction to a Revoked status; the
				// state in between is observed from the "cached_managed_cert" event
				mid := &emit.Enc{}
				ev0 := bySerial[target.leaf.SerialNumber.String()].ev
				h.cfg.OnEvent = func(_ context.Context, event string, _ map[string]any) error {
					if event != "cached_managed_cert" || midDone {
						return nil
					}
					midDone = true
					mid.Int(1).Int(target.idx).Bool(true).Bool(op.Disabled)
					encEnv(mid, ev0)
					mid.Big(bigTime(now))
					ow := -1
					if ob, ok := own[target.idx]; ok {
						ow = t.blob(ob)
					}
					observe(mid, "manage:cache", ow, nil, "", []*c14Cert{target}, mark, lmark)
					mark, lmark = wd.resp.Mark(), len(h.b.Log.Snapshot())
					return nil
				}
				var merr error
				pmsg = safely(func() { merr = h.cfg.ManageSync(ctx, []string{target.name}) })
				h.cfg.OnEvent = nil
				_ = merr
				if !midDone && pmsg != "" {
					// it never got as far as caching the certificate: reported as the cache step
					midDone = true
					mid.Int(1).Int(target.idx).Bool(true).Bool(op.Disabled)
					encEnv(mid, ev0)
					mid.Big(bigTime(now))
					observe(mid, "manage:cache", -1, nil, pmsg, []*c14Cert{target}, mark, lmark)
					h.b.Log.Hook = nil
					continue
				}
				if !midDone {
					wd.w.Hist("hist.manage.NOT-CACHED")
					h.b.Log.Hook = nil
					continue
				}
			}
			h.b.Log.Hook = nil
			// who looked at which certificate: 0 tick, 1 handshake, 2 manageOne, 3 nobody
			se.Int(2)
			switch op.Op {
			case "maintain":
				se.Int(0).Len(0)
			case "handshake":
				se.Int(3).Len(1).Int(target.idx).Int(1)
			case "manage":
				se.Int(3).Len(1).Int(target.idx).Int(2)
			}
			se.Bool(op.Disabled).Big(bigTime(now))
			se.Len(len(cached))
			for _, c := range cached {
				se.Int(c.idx)
				encEnv(se, bySerial[c.leaf.SerialNumber.String()].ev)
			}
			// renewal outcomes, as observed at the issuer
			type oc struct {
				old *c14Cert
				tag int
				nc  *c14Cert
			}
			var ocs []oc
			// attributed to the certificate that was cached under the name BEFORE the pass; anything
			// the implementation did that cannot be attributed is left to the comparison of the
			// observations (the harness never gives up on unexpected behaviour)
			byName := map[string]*c14Cert{}
			for _, c := range cached {
				if old, ok := byName[c.name]; !ok || c.idx > old.idx {
					byName[c.name] = c
				}
			}
			for _, nc := range h.issued {
				old := byName[nc.name]
				if old == nil {
					wd.w.Hist("hist.renew.UNATTRIBUTED")
					continue
				}
				if op.Renew == "reload-fail" {
					ocs = append(ocs, oc{old, 2, nil})
				} else {
					ocs = append(ocs, oc{old, 1, nc})
				}
			}
			for _, n := range h.failed {
				if old := byName[n]; old != nil {
					ocs = append(ocs, oc{old, 0, nil})
				} else {
					wd.w.Hist("hist.renew.UNATTRIBUTED")
				}
			}
			se.Len(len(ocs))
			for _, o := range ocs {
				se.Int(o.old.idx).Int(o.tag)
				if o.tag == 1 {
					se.Int(o.nc.idx)
					ev, ok := newEnvs[o.nc.leaf.SerialNumber.String()]
					if !ok {
						ev = c14Env{Ans: 0} // not asked: the model must not have needed it either
					}
					encEnv(se, ev)
				}
				wd.w.Hist("hist.renew=" + []string{"fail", "ok", "reload-fail"}[o.tag])
				feat["renew="+[]string{"fail", "ok", "reload-fail"}[o.tag]] = true
			}
			callCerts = append(cached, h.issued...)
		case "restart":
			h.newInstance()
			se.Int(3)
		}
		t1 := time.Now()
		if t1.Sub(now) > 5*time.Minute {
			wd.skippedBoundary++
			return
		}
		// observation after the op
		if op.Op == "handshake" || op.Op == "manage" {
			if len(wd.resp.Since(mark)) > 0 {
				wd.w.Hist("hist." + op.Op + ".responder-asked")
			}
			if len(h.issued)+len(h.failed) > 0 {
				wd.w.Hist("hist." + op.Op + ".forced-renewal")
			}
		}
		observe(se, opName, ownRef, ret, pmsg, callCerts, mark, lmark)
	}
	if *abandoned {
		return
	}
	parsed := t.encode(e)
	e.Int(1).Len(nsteps)
	wire := e.String()
	if nsteps > 0 {
		wire += " " + body.String()
	}
	if desc == nil {
		desc = map[string]any{}
	}
	desc["kind"] = "history"
	if _, ok := desc["class"]; !ok {
		desc["class"] = "history"
	}
	var fk []string
	for k := range feat {
		fk = append(fk, k)
	}
	sort.Strings(fk)
	pj, _ := json.Marshal(plan)
	wd.w.Add(emit.Case{Desc: desc, In: plan, Obs: map[string]any{"steps": steps, "blobs": parsed}, Wire: wire,
		Nontrivial: len(plan.Ops) >= 2, Key: string(pj)})
	wd.w.Hist(fmt.Sprintf("hist.len=%d", len(plan.Ops)))
	wd.w.Hist(fmt.Sprintf("hist.certs=%d", len(plan.Certs)))
}

// storedCertFor returns the known certificate whose chain is in storage for the managed name.
func (h *c14Hist) storedCertFor(name string) *c14Cert {
	v, ok := h.b.Get(c14SiteKey(h.iss.IssuerKey(), name, ".crt"))
	if !ok {
		return nil
	}
	for _, c := range h.t.certs {
		if string(c.chainPEM) == string(v) {
			return c
		}
	}
	return nil
}

// ---------------------------------------------------------------- generators

func (wd *c14World) randAns(r *rand.Rand) c14Ans {
	switch r.Intn(12) {
	case 0:
		return c14Ans{Kind: "refused"}
	case 1:
		return c14Ans{Kind: "drop"}
	case 2:
		return c14Ans{Kind: "garbage", HTTP: []int{0, 500, 502}[r.Intn(3)]}
	case 3:
		return c14Ans{Kind: []string{"empty", "empty", "whitespace", "midbody", "tryLater", "truncated"}[r.Intn(6)], HTTP: []int{0, 0, 502, 503}[r.Intn(4)],
			Status: ocsp.Good, Serial: "right", This: "recent", Next: "week", Signer: "ca"}
	}
	a := c14Ans{Kind: "resp", Status: []int{ocsp.Good, ocsp.Good, ocsp.Good, ocsp.Revoked, ocsp.Unknown}[r.Intn(5)], Serial: "right", Signer: "ca"}
	if r.Intn(6) == 0 {
		a.Serial = []string{"other", "lower"}[r.Intn(2)]
	}
	switch r.Intn(8) {
	case 0:
		a.Signer = "other"
	case 1:
		a.Signer = "delegate"
	case 2:
		a.Signer = "delegate-short"
	case 3:
		a.Signer = []string{"delegate-noeku", "delegate-expired", "delegate-future", "ca-embedded"}[r.Intn(4)]
	}
	if r.Intn(3) == 0 {
		a.This, a.Next = c14This[r.Intn(len(c14This))], c14Next[r.Intn(len(c14Next))]
	} else {
		// mostly plausible validity periods
		a.This = []string{"recent", "old"}[r.Intn(2)]
		a.Next = []string{"week", "plus6h", "plus1h", "at-expiry", "zero"}[r.Intn(5)]
	}
	if a.Status == ocsp.Revoked {
		a.Reason = []int{0, 1, 4}[r.Intn(3)] // unspecified, keyCompromise, superseded
	}
	if r.Intn(10) == 0 {
		a.HTTP = 500
	}
	return a
}

// nearClock moves thisUpdate or nextUpdate of a response close to the clock (single calls only:
// histories have no per-instant boundary guard).
func nearClock(r *rand.Rand, a c14Ans) c14Ans {
	if a.Kind != "resp" {
		return a
	}
	if r.Intn(2) == 0 {
		a.Next = []string{"m5m", "m2m", "m30s", "p30s", "p2m"}[r.Intn(5)]
		if a.This != "recent" && a.This != "old" {
			a.This = "recent"
		}
	} else {
		a.This = []string{"p30s", "p2m", "p5m", "m30s", "m2m"}[r.Intn(5)]
		if a.Next != "week" && a.Next != "plus6h" {
			a.Next = "week"
		}
	}
	return a
}

func goodAns() c14Ans {
	return c14Ans{Kind: "resp", Status: ocsp.Good, Serial: "right", This: "recent", Next: "week", Signer: "ca"}
}
func revokedAns(reason int) c14Ans {
	return c14Ans{Kind: "resp", Status: ocsp.Revoked, Serial: "right", This: "recent", Next: "week", Signer: "ca", Reason: reason}
}

func (wd *c14World) randPlan(r *rand.Rand) c14Plan {
	var p c14Plan
	n := 1 + r.Intn(3)
	storedKeys := c14StoredKeys()
	for i := 0; i < n; i++ {
		fl := []string{"normal", "normal", "normal", "short", "tenday", "nourl", "expired", "muststaple", "muststaple"}[r.Intn(9)]
		managed := r.Intn(2) == 0
		if managed && (fl == "nourl" || fl == "expired") {
			fl = "normal"
		}
		p.Certs = append(p.Certs, struct {
			Flavor  string `json:"flavor"`
			Managed bool   `json:"managed"`
		}{fl, managed})
	}
	ans := func() map[string]c14Ans {
		m := map[string]c14Ans{}
		for i := 0; i < 8; i++ { // indices of planned and (possibly) renewed certificates
			if r.Intn(3) == 0 {
				m[fmt.Sprint(i)] = goodAns()
			} else {
				m[fmt.Sprint(i)] = wd.randAns(r)
			}
		}
		m["*"] = wd.randAns(r)
		if r.Intn(2) == 0 {
			m["new"] = wd.randAns(r)
		}
		return m
	}
	faults := func() c14Faults {
		if r.Intn(6) != 0 {
			return c14Faults{}
		}
		return c14Faults{Load: r.Intn(3) == 0, Store: r.Intn(3) == 0, Del: r.Intn(3) == 0}
	}
	// initial caching, sometimes over a persisted state
	for i := range p.Certs {
		if r.Intn(3) == 0 {
			p.Ops = append(p.Ops, c14HOp{Op: "tamper", Cert: i, Stored: storedKeys[r.Intn(len(storedKeys))]})
		}
		a := ans()
		// mostly responses that are accepted now; often past the middle of their validity period so
		// that the next maintenance pass refreshes them
		switch k := r.Intn(20); {
		case k < 7:
			a[fmt.Sprint(i)] = c14Ans{Kind: "resp", Status: ocsp.Good, Serial: "right", This: "old", Next: []string{"plus6h", "plus1h"}[r.Intn(2)], Signer: "ca"}
		case k < 11:
			a[fmt.Sprint(i)] = goodAns()
		case k < 13:
			a[fmt.Sprint(i)] = c14Ans{Kind: "resp", Status: ocsp.Unknown, Serial: "right", This: "recent", Next: "week", Signer: "ca"}
		case k < 15 && p.Certs[i].Managed:
			a[fmt.Sprint(i)] = revokedAns([]int{0, 1}[r.Intn(2)])
		}
		opn := "cache"
		if p.Certs[i].Managed && r.Intn(4) == 0 {
			opn = "manage"
		}
		p.Ops = append(p.Ops, c14HOp{Op: opn, Cert: i, Ans: a, Faults: faults(), Disabled: r.Intn(15) == 0, Renew: []string{"ok", "fail", "reload-fail"}[r.Intn(3)]})
	}
	p.PreCompromised = r.Intn(6) == 0
	m := 1 + r.Intn(5)
	for k := 0; k < m; k++ {
		switch r.Intn(10) {
		case 0, 1, 2, 3, 4:
			a := ans()
			if r.Intn(3) == 0 { // aim at the revocation reaction
				for i, pc := range p.Certs {
					if pc.Managed {
						a[fmt.Sprint(i)] = revokedAns([]int{0, 1}[r.Intn(2)])
					}
				}
				a["*"] = revokedAns(0)
			}
			p.Ops = append(p.Ops, c14HOp{Op: "maintain", Ans: a, Faults: faults(), Renew: []string{"ok", "ok", "fail", "fail", "reload-fail"}[r.Intn(5)], Disabled: r.Intn(20) == 0})
		case 5, 6:
			p.Ops = append(p.Ops, c14HOp{Op: "restart"})
			for i := range p.Certs {
				if r.Intn(4) != 0 {
					p.Ops = append(p.Ops, c14HOp{Op: "cache", Cert: i, Ans: ans(), Faults: faults()})
				}
			}
		case 7, 8:
			p.Ops = append(p.Ops, c14HOp{Op: "tamper", Cert: r.Intn(n), Stored: storedKeys[r.Intn(len(storedKeys))]})
		case 9:
			p.Ops = append(p.Ops, c14HOp{Op: "cache", Cert: r.Intn(n), Ans: ans(), Faults: faults()})
		}
		// a key-compromise revocation of whatever is cached now, the replacement due again at once
		if r.Intn(5) == 0 {
			a := one(revokedAns(1))
			a["new"] = c14Ans{Kind: "resp", Status: []int{ocsp.Good, ocsp.Revoked}[r.Intn(2)], Serial: "right", This: "old", Next: "plus6h", Signer: "ca", Reason: 1}
			for k := 0; k < 1+r.Intn(2); k++ {
				p.Ops = append(p.Ops, c14HOp{Op: "maintain", Ans: a, Renew: []string{"ok", "ok", "ok", "fail", "reload-fail"}[r.Intn(5)]})
			}
		}
		// handshakes with on-demand management and manageOne, on a managed certificate
		if r.Intn(3) == 0 {
			var mg []int
			for i, pc := range p.Certs {
				if pc.Managed {
					mg = append(mg, i)
				}
			}
			if len(mg) > 0 {
				a := ans()
				ci := mg[r.Intn(len(mg))]
				if r.Intn(3) == 0 {
					a = one(revokedAns([]int{0, 1}[r.Intn(2)]))
				}
				p.Ops = append(p.Ops, c14HOp{Op: []string{"handshake", "handshake", "manage"}[r.Intn(3)], Cert: ci, Ans: a, Faults: faults(),
					Renew: []string{"ok", "ok", "fail", "fail", "reload-fail"}[r.Intn(5)], Disabled: r.Intn(20) == 0})
			}
		}
	}
	return p
}

func mkPlan(certs string, ops ...c14HOp) c14Plan {
	var p c14Plan
	for _, f := range strings.Split(certs, ",") {
		managed := strings.HasPrefix(f, "m:")
		p.Certs = append(p.Certs, struct {
			Flavor  string `json:"flavor"`
			Managed bool   `json:"managed"`
		}{strings.TrimPrefix(strings.TrimPrefix(f, "m:"), "u:"), managed})
	}
	p.Ops = ops
	return p
}

func one(a c14Ans) map[string]c14Ans {
	return map[string]c14Ans{"*": a, "0": a, "1": a, "2": a, "3": a}
}

// ---------------------------------------------------------------- runner

func runC14(tier string, seed int64, outdir string, replay string) error {
	w := emit.NewWriter(outdir, "C14", tier, seed)
	wd := &c14World{ca: doubles.NewCA("harness CA"), other: doubles.NewCA("other CA"), resp: doubles.NewOCSPResponder(),
		refused: doubles.RefusedURL(), rnd: rand.New(rand.NewSource(seed)), w: w, serial: 1000000 + (seed%1000)*100000}
	defer wd.resp.Close()
	wd.dgLong = wd.ca.Delegate(time.Now().Add(5 * 365 * 24 * time.Hour))
	wd.dgShort = wd.ca.Delegate(time.Now().Add(3 * time.Hour))
	wd.dgNoEKU = wd.ca.DelegateWith(time.Now().Add(-24*time.Hour), time.Now().Add(5*365*24*time.Hour), false)
	wd.dgExpired = wd.ca.DelegateWith(time.Now().Add(-48*time.Hour), time.Now().Add(-time.Hour), true)
	wd.dgFuture = wd.ca.DelegateWith(time.Now().Add(2*time.Hour), time.Now().Add(5*365*24*time.Hour), true)
	wd.dgSelf = &doubles.OCSPDelegate{Cert: wd.ca.Cert}
	aia, aiaHits := wd.ca.NewAIAServer()
	defer aia.Close()
	wd.aiaURL, wd.aiaHits = aia.URL+"/ca.der", aiaHits
	finish := func() {
		w.Meta.Oracles = append(w.Meta.Oracles, emit.OracleCheck{
			Name:   fmt.Sprintf("ocsp.ParseResponse(b, issuer) = ocsp.ParseResponse(b, nil) + signature check, no serial comparison (%d byte strings parsed both ways)", wd.oracleChecked),
			OK:     wd.oracleBad == 0,
			Detail: wd.oracleDetail})
		w.Meta.Oracles = append(w.Meta.Oracles, emit.OracleCheck{
			Name:   "harness set-up (makeCertificate on harness leaves, ObtainCertSync with the issuer double) succeeds",
			OK:     wd.setupFailures == 0,
			Detail: fmt.Sprintf("%d failures; first: %s", wd.setupFailures, wd.setupDetail)})
		w.Meta.Extra = map[string]any{"skipped_boundary": wd.skippedBoundary,
			// recorded only: the code's own StorageKeys.OCSPStaple against the harness's independent key
			"code_staple_key_agrees": wd.keyAgree, "code_staple_key_disagrees": wd.keyDisagree, "code_staple_key_first_disagreement": wd.keyDetail,
			"issuer_downloads_seen": wd.aiaHits()}
		w.Meta.Oracles = append(w.Meta.Oracles, emit.OracleCheck{
			Name:   "embedded responder certificates are described with crypto/x509 only (validity, ExtKeyUsage, byte equality with the issuer); storage keys of persisted staples and certificate resources are computed by the harness (hash/fnv), the code's own answers are only recorded",
			OK:     true,
			Detail: fmt.Sprintf("code key = harness key on %d certificates, differs on %d", wd.keyAgree, wd.keyDisagree)})
		w.Meta.Rule = "calls: stapling enabled and a persisted staple or a responder answer is examined, distinct (flavor, persisted state, earlier state, answer, faults) tuples; histories: distinct plans of at least 2 operations"
		w.Close()
	}
	if replay != "" {
		rc, err := loadReplay(replay)
		if err != nil {
			return err
		}
		if rc.Desc["kind"] == "call" {
			var in c14CallIn
			if err := json.Unmarshal(rc.In, &in); err != nil {
				return err
			}
			wd.runCall(in)
		} else {
			var p c14Plan
			if err := json.Unmarshal(rc.In, &p); err != nil {
				return err
			}
			wd.runHist(p, map[string]any{"class": rc.Desc["class"]})
		}
		finish()
		return nil
	}
	r := wd.rnd
	// ---- corpus: the witnesses of DESIGN §5.C14 first ----
	for _, a := range []c14Ans{
		{Kind: "resp", Status: ocsp.Good, Serial: "other", This: "recent", Next: "week", Signer: "ca"},
		{Kind: "resp", Status: ocsp.Good, Serial: "right", This: "old", Next: "past", Signer: "ca"},
		{Kind: "resp", Status: ocsp.Good, Serial: "right", This: "soon", Next: "week", Signer: "ca"},
		{Kind: "resp", Status: ocsp.Good, Serial: "lower", This: "recent", Next: "week", Signer: "ca"},
	} {
		wd.runCall(c14CallIn{Flavor: "normal", Stored: "absent", Ans: a})
	}
	// a forged persisted staple (fixed finding): verified against the issuer, found wanting, deleted
	wd.runCall(c14CallIn{Flavor: "normal", Stored: "fresh-forged", Ans: c14Ans{Kind: "drop"}})
	// witness of C14_signature_refuted_chainless_forged_store (known finding, not fixed): the
	// same for a certificate handed over without its issuer
	wd.runCall(c14CallIn{Flavor: "noissuer", Stored: "fresh-forged", Ans: c14Ans{Kind: "drop"}})
	// the repo's own TestStapleOCSP/ok shape: zero ThisUpdate and NextUpdate
	wd.runCall(c14CallIn{Flavor: "normal", Stored: "absent", Ans: c14Ans{Kind: "resp", Status: ocsp.Good, Serial: "right", This: "zero", Next: "zero", Signer: "ca"}})
	// a Good answer signed by a certificate of the same CA that is no responder certificate, or by
	// a responder certificate that has expired (fixed findings)
	for _, sg := range []string{"delegate-noeku", "delegate-expired", "delegate-future", "ca-embedded", "delegate"} {
		wd.runCall(c14CallIn{Flavor: "normal", Stored: "absent", Ans: c14Ans{Kind: "resp", Status: ocsp.Good, Serial: "right", This: "recent", Next: "week", Signer: sg}})
	}
	// witness of C14_reuse_refuted_chainless: bare leaf with an issuer URL, a fresh properly signed
	// persisted staple, responder down: the persisted staple is not used (it cannot be verified)
	wd.runCall(c14CallIn{Flavor: "noissuer-aia", Stored: "fresh", Ans: c14Ans{Kind: "drop"}})
	wd.runCall(c14CallIn{Flavor: "noissuer-aia", Stored: "fresh-forged", Ans: goodAns()})
	// responder reached through OCSPConfig.HTTPProxy / ResponderOverrides only
	for _, via := range []string{"proxy", "override", ""} {
		wd.runCall(c14CallIn{Flavor: "deadurl", Via: via, Stored: "absent", Ans: goodAns()})
		wd.runCall(c14CallIn{Flavor: "deadurl", Via: via, Stored: "stale", Ans: revokedAns(0)})
	}
	wd.runCall(c14CallIn{Flavor: "muststaple", Stored: "absent", Ans: c14Ans{Kind: "drop"}})
	// on-demand handshakes: stale Good staple refreshed by the handshake; Revoked learned by the
	// handshake => replaced / evicted in the background; manageOne meets a Revoked certificate
	staleG := c14Ans{Kind: "resp", Status: ocsp.Good, Serial: "right", This: "old", Next: "plus6h", Signer: "ca"}
	staleR := c14Ans{Kind: "resp", Status: ocsp.Revoked, Serial: "right", This: "old", Next: "plus6h", Signer: "ca"}
	for _, rn := range []string{"ok", "fail", "reload-fail"} {
		wd.runHist(mkPlan("m:normal,u:normal",
			c14HOp{Op: "cache", Cert: 0, Ans: one(staleG)},
			c14HOp{Op: "cache", Cert: 1, Ans: one(staleG)},
			c14HOp{Op: "handshake", Cert: 0, Ans: one(c14Ans{Kind: "resp", Status: ocsp.Good, Serial: "right", This: "old", Next: "plus1h", Signer: "ca"}), Renew: rn},
			c14HOp{Op: "handshake", Cert: 0, Ans: one(revokedAns(0)), Renew: rn},
			c14HOp{Op: "handshake", Cert: 0, Ans: one(goodAns()), Renew: rn},
			c14HOp{Op: "tamper", Cert: 0, Stored: "absent"},
			c14HOp{Op: "cache", Cert: 0, Ans: one(staleG)},
			c14HOp{Op: "handshake", Cert: 0, Ans: one(revokedAns(1)), Renew: rn},
			c14HOp{Op: "handshake", Cert: 0, Ans: one(c14Ans{Kind: "drop"}), Renew: rn}), map[string]any{"class": "handshake-revoked-" + rn})
		wd.runHist(mkPlan("m:normal",
			c14HOp{Op: "cache", Cert: 0, Ans: one(staleR)},
			c14HOp{Op: "handshake", Cert: 0, Ans: one(c14Ans{Kind: "drop"}), Renew: rn},
			c14HOp{Op: "handshake", Cert: 0, Ans: one(goodAns()), Renew: rn}), map[string]any{"class": "handshake-recorded-revoked-" + rn})
		wd.runHist(mkPlan("m:normal",
			c14HOp{Op: "manage", Cert: 0, Ans: one(revokedAns(0)), Renew: rn},
			c14HOp{Op: "maintain", Ans: one(goodAns()), Renew: rn},
			c14HOp{Op: "restart"},
			c14HOp{Op: "manage", Cert: 0, Ans: one(staleG), Renew: rn},
			c14HOp{Op: "handshake", Cert: 0, Ans: one(c14Ans{Kind: "resp", Status: ocsp.Good, Serial: "right", This: "recent", Next: "week", Signer: "delegate-noeku"}), Renew: rn},
			c14HOp{Op: "handshake", Cert: 0, Ans: one(goodAns()), Faults: c14Faults{Store: true}, Renew: rn},
			c14HOp{Op: "maintain", Ans: one(c14Ans{Kind: "drop"}), Renew: rn}), map[string]any{"class": "manage-revoked-" + rn})
	}
	// the same name Revoked for key compromise a SECOND time over the same storage (the
	// `.key.compromised` file of the first incident is still there), noticed by a tick, by a
	// handshake or by manageOne, with or without a restart in between, and with such a file present
	// from the start: each time the certificate must be replaced (or leave the cache)
	{
		kc := func(newA c14Ans) map[string]c14Ans {
			m := one(revokedAns(1))
			m["new"] = newA
			return m
		}
		for _, pre := range []bool{false, true} {
			p := mkPlan("m:normal,u:normal",
				c14HOp{Op: "cache", Cert: 0, Ans: one(staleG)},
				c14HOp{Op: "cache", Cert: 1, Ans: one(staleG)},
				c14HOp{Op: "maintain", Ans: kc(staleG), Renew: "ok"},
				c14HOp{Op: "maintain", Ans: kc(staleG), Renew: "ok"},
				c14HOp{Op: "maintain", Ans: kc(staleR), Renew: "ok"},
				c14HOp{Op: "maintain", Ans: kc(goodAns()), Renew: "ok"},
				c14HOp{Op: "maintain", Ans: one(goodAns()), Renew: "ok"})
			p.PreCompromised = pre
			wd.runHist(p, map[string]any{"class": fmt.Sprintf("key-compromise-twice-tick-pre%v", pre)})
			p = mkPlan("m:normal",
				c14HOp{Op: "cache", Cert: 0, Ans: one(staleG)},
				c14HOp{Op: "maintain", Ans: kc(staleG), Renew: "ok"},
				c14HOp{Op: "restart"},
				c14HOp{Op: "manage", Cert: 0, Ans: kc(goodAns()), Renew: "ok"},
				c14HOp{Op: "restart"},
				c14HOp{Op: "cache", Cert: 0, Ans: one(staleG)},
				c14HOp{Op: "handshake", Cert: 0, Ans: kc(goodAns()), Renew: "ok"},
				c14HOp{Op: "maintain", Ans: one(goodAns()), Renew: "ok"})
			p.PreCompromised = pre
			wd.runHist(p, map[string]any{"class": fmt.Sprintf("key-compromise-twice-restart-pre%v", pre)})
		}
	}
	// certificates with the OCSP must-staple extension on every load path (cache managed /
	// unmanaged, reload after a renewal, restart, manageOne, handshake) while the responder is down
	// or says nothing usable and nothing fresh is persisted: they must be cached and served all the same
	for i, a := range []c14Ans{{Kind: "drop"}, {Kind: "refused"}, {Kind: "garbage", HTTP: 500}, {Kind: "empty", HTTP: 503},
		{Kind: "resp", Status: ocsp.Unknown, Serial: "right", This: "recent", Next: "week", Signer: "ca"},
		{Kind: "resp", Status: ocsp.Good, Serial: "right", This: "old", Next: "past", Signer: "ca"}} {
		down := one(a)
		down["new"] = a
		rv := one(revokedAns(0))
		rv["new"] = a
		wd.runHist(mkPlan("m:muststaple,u:muststaple",
			c14HOp{Op: "cache", Cert: 0, Ans: down},
			c14HOp{Op: "cache", Cert: 1, Ans: down},
			c14HOp{Op: "maintain", Ans: down, Renew: "ok"},
			c14HOp{Op: "restart"},
			c14HOp{Op: "manage", Cert: 0, Ans: down, Renew: "ok"},
			c14HOp{Op: "cache", Cert: 1, Ans: down},
			c14HOp{Op: "maintain", Ans: one(staleG), Renew: "ok"},
			c14HOp{Op: "handshake", Cert: 0, Ans: down, Renew: "ok"},
			c14HOp{Op: "maintain", Ans: rv, Renew: "ok"}, // replaced; the replacement is loaded while the responder is down
			c14HOp{Op: "restart"},
			c14HOp{Op: "tamper", Cert: 0, Stored: "stale"},
			c14HOp{Op: "cache", Cert: 0, Ans: down},
			c14HOp{Op: "maintain", Ans: one(goodAns()), Renew: "ok"}), map[string]any{"class": fmt.Sprintf("must-staple-responder-down-%d", i)})
	}
	// maintenance ticks across a restart over the same storage
	wd.runHist(mkPlan("m:normal,u:tenday",
		c14HOp{Op: "manage", Cert: 0, Ans: one(staleG)},
		c14HOp{Op: "cache", Cert: 1, Ans: one(staleG)},
		c14HOp{Op: "maintain", Ans: one(goodAns()), Renew: "ok"},
		c14HOp{Op: "restart"},
		c14HOp{Op: "manage", Cert: 0, Ans: one(c14Ans{Kind: "drop"})},
		c14HOp{Op: "cache", Cert: 1, Ans: one(c14Ans{Kind: "drop"})},
		c14HOp{Op: "maintain", Ans: one(c14Ans{Kind: "drop"}), Renew: "ok"},
		c14HOp{Op: "maintain", Ans: one(revokedAns(0)), Renew: "ok"},
		c14HOp{Op: "restart"},
		c14HOp{Op: "manage", Cert: 0, Ans: one(c14Ans{Kind: "drop"})},
		c14HOp{Op: "maintain", Ans: one(c14Ans{Kind: "drop"}), Renew: "ok"}), map[string]any{"class": "ticks-across-restarts"})
	// a responder (or the load balancer in front of it) that answers with nothing: bare 503 / 502,
	// 200 with an empty body, only white space, connection closed in the middle of the body — asked
	// because nothing reusable is persisted
	var nothing []c14Ans
	for _, a := range []c14Ans{{Kind: "empty", HTTP: 503}, {Kind: "empty", HTTP: 502}, {Kind: "empty"}, {Kind: "whitespace"}, {Kind: "midbody", Status: ocsp.Good, Serial: "right", This: "recent", Next: "week", Signer: "ca"}} {
		nothing = append(nothing, a)
		for _, fl := range []string{"normal", "short", "noissuer-aia"} {
			for _, sk := range []string{"absent", "stale", "corrupt"} {
				wd.runCall(c14CallIn{Flavor: fl, Stored: sk, Ans: a})
			}
		}
	}
	for i, a := range nothing {
		staleG0 := c14Ans{Kind: "resp", Status: ocsp.Good, Serial: "right", This: "old", Next: "plus6h", Signer: "ca"}
		wd.runHist(mkPlan("u:normal,m:normal",
			c14HOp{Op: "cache", Cert: 0, Ans: one(a)},
			c14HOp{Op: "cache", Cert: 1, Ans: one(a)},
			c14HOp{Op: "maintain", Ans: one(a), Renew: "ok"},
			c14HOp{Op: "maintain", Ans: one(staleG0), Renew: "ok"},
			c14HOp{Op: "maintain", Ans: one(a), Renew: "ok"},
			c14HOp{Op: "handshake", Cert: 1, Ans: one(a), Renew: "ok"},
			c14HOp{Op: "restart"},
			c14HOp{Op: "tamper", Cert: 1, Stored: "absent"},
			c14HOp{Op: "manage", Cert: 1, Ans: one(a), Renew: "ok"},
			c14HOp{Op: "maintain", Ans: one(goodAns()), Renew: "ok"}), map[string]any{"class": fmt.Sprintf("responder-says-nothing-%d", i)})
	}
	// histories aimed at each clause
	wd.runHist(mkPlan("u:normal",
		c14HOp{Op: "cache", Cert: 0, Ans: one(goodAns())},
		c14HOp{Op: "restart"},
		c14HOp{Op: "cache", Cert: 0, Ans: one(c14Ans{Kind: "drop"})},
		c14HOp{Op: "maintain", Ans: one(c14Ans{Kind: "drop"}), Renew: "ok"}), map[string]any{"class": "persist-restart-reuse"})
	// persisted by the maintenance pass of one process, reused by the load path of the next
	for _, managed := range []string{"u:normal", "m:normal"} {
		stale := c14Ans{Kind: "resp", Status: ocsp.Good, Serial: "right", This: "old", Next: "plus6h", Signer: "ca"}
		wd.runHist(mkPlan(managed,
			c14HOp{Op: "cache", Cert: 0, Ans: one(stale)},
			c14HOp{Op: "maintain", Ans: one(goodAns()), Renew: "ok"},
			c14HOp{Op: "restart"},
			c14HOp{Op: "cache", Cert: 0, Ans: one(c14Ans{Kind: "drop"})},
			c14HOp{Op: "maintain", Ans: one(c14Ans{Kind: "drop"}), Renew: "ok"}), map[string]any{"class": "maintenance-persist-restart-reuse"})
	}
	for _, rn := range []string{"ok", "fail", "reload-fail"} {
		for _, reason := range []int{0, 1} {
			// Good when cached, past the middle of its validity (so that the pass refreshes it), the
			// responder says Revoked DURING a maintenance pass
			staleGood := c14Ans{Kind: "resp", Status: ocsp.Good, Serial: "right", This: "old", Next: "plus6h", Signer: "ca"}
			wd.runHist(mkPlan("m:normal,u:normal",
				c14HOp{Op: "cache", Cert: 0, Ans: one(staleGood)},
				c14HOp{Op: "cache", Cert: 1, Ans: one(staleGood)},
				c14HOp{Op: "maintain", Ans: one(staleGood), Renew: rn},
				c14HOp{Op: "maintain", Ans: one(revokedAns(reason)), Renew: rn},
				c14HOp{Op: "maintain", Ans: one(revokedAns(reason)), Renew: rn}), map[string]any{"class": "revoked-" + rn})
			// the same with a fresh Good staple whose persisted copy is gone: nothing is due, so the
			// pass must not even ask
			wd.runHist(mkPlan("m:normal",
				c14HOp{Op: "cache", Cert: 0, Ans: one(goodAns())},
				c14HOp{Op: "tamper", Cert: 0, Stored: "absent"},
				c14HOp{Op: "maintain", Ans: one(revokedAns(reason)), Renew: rn}), map[string]any{"class": "fresh-not-asked-" + rn})
			wd.runHist(mkPlan("m:normal",
				c14HOp{Op: "cache", Cert: 0, Ans: one(revokedAns(reason))},
				c14HOp{Op: "maintain", Ans: one(goodAns()), Renew: rn},
				c14HOp{Op: "maintain", Ans: one(goodAns()), Renew: rn}), map[string]any{"class": "cached-revoked-" + rn})
		}
	}
	wd.runHist(mkPlan("u:normal,m:normal",
		c14HOp{Op: "tamper", Cert: 0, Stored: "corrupt"},
		c14HOp{Op: "cache", Cert: 0, Ans: one(c14Ans{Kind: "refused"})},
		c14HOp{Op: "cache", Cert: 1, Ans: one(c14Ans{Kind: "garbage", HTTP: 500})},
		c14HOp{Op: "maintain", Ans: one(c14Ans{Kind: "drop"}), Renew: "fail"},
		c14HOp{Op: "maintain", Ans: one(goodAns()), Renew: "fail"}), map[string]any{"class": "outage-then-recovery"})

	// ---- exhaustive: every response shape against a fresh certificate without persisted staple ----
	nCalls, nHist := 500, 260
	if tier == "thorough" {
		nCalls, nHist = 8000, 4000
	}
	thisSet, nextSet := c14This, c14Next
	count := 0
	for _, st := range []int{ocsp.Good, ocsp.Revoked, ocsp.Unknown} {
		for _, ser := range []string{"right", "other"} {
			for _, sg := range []string{"ca", "other", "delegate", "delegate-noeku", "delegate-expired"} {
				for _, th := range thisSet {
					for _, nx := range nextSet {
						if tier != "thorough" && (st != ocsp.Good && (sg != "ca" || ser != "right")) {
							continue // quick: non-Good statuses only with the plain signer and serial
						}
						if tier != "thorough" && strings.HasPrefix(sg, "delegate-") && (ser != "right" || (th != "recent" && th != "old")) {
							continue
						}
						wd.runCall(c14CallIn{Flavor: "normal", Stored: "absent", Ans: c14Ans{Kind: "resp", Status: st, Serial: ser, This: th, Next: nx, Signer: sg}})
						count++
					}
				}
			}
		}
	}
	// the currency clause at its edges: thisUpdate / nextUpdate seconds to minutes from the clock,
	// as a fresh answer and as a persisted staple (reused, or refused and replaced)
	type tn struct{ th, nx string }
	var near []tn
	for _, nx := range []string{"m5m", "m2m", "m30s", "p30s", "p2m"} {
		near = append(near, tn{"recent", nx}, tn{"m5m", nx})
	}
	for _, th := range []string{"p30s", "p2m", "p5m", "m30s"} {
		near = append(near, tn{th, "week"}, tn{th, "plus1h"})
	}
	for _, x := range near {
		if x.th == x.nx {
			continue
		}
		for _, stt := range []int{ocsp.Good, ocsp.Revoked} {
			a := c14Ans{Kind: "resp", Status: stt, Serial: "right", This: x.th, Next: x.nx, Signer: "ca"}
			wd.runCall(c14CallIn{Flavor: "normal", Stored: "absent", Ans: a})
			count++
			if stt != ocsp.Good {
				continue
			}
			sa := a
			for _, ans := range []c14Ans{{Kind: "drop"}, goodAns(), a} {
				for _, fl := range []string{"normal", "short"} {
					wd.runCall(c14CallIn{Flavor: fl, Stored: "near:" + x.th + "/" + x.nx, StoredA: &sa, Ans: ans, NilPEM: count%2 == 0})
					count++
				}
			}
		}
	}
	// every persisted state against a few answers and flavors
	for _, sk := range c14StoredKeys() {
		for _, a := range []c14Ans{goodAns(), {Kind: "drop"}, {Kind: "refused"}, revokedAns(0), {Kind: "garbage", HTTP: 500}} {
			for _, fl := range []string{"normal", "short", "nourl", "noissuer-aia"} {
				if fl != "normal" && a.Kind == "resp" && a.Status == ocsp.Revoked {
					continue
				}
				wd.runCall(c14CallIn{Flavor: fl, Stored: sk, Ans: a, NilPEM: count%2 == 0})
				count++
			}
		}
	}
	w.Meta.Exhaustive = false
	w.Meta.Universe = fmt.Sprintf("enumerated completely: %d single calls = response shapes {status} x {serial} x {signer} x {thisUpdate} x {nextUpdate} on a fresh certificate, and {persisted state} x {5 answers} x {3 flavors}; the rest is random", count)
	// ---- random calls over the whole product ----
	flavors := []string{"normal", "normal", "normal", "short", "nourl", "short-nourl", "noissuer", "noissuer-aia", "muststaple", "deadurl", "expired", "tenday"}
	storedKeys := c14StoredKeys()
	for i := 0; i < nCalls; i++ {
		in := c14CallIn{Flavor: flavors[r.Intn(len(flavors))], Stored: "absent", Ans: wd.randAns(r), NilPEM: r.Intn(2) == 0, Disabled: r.Intn(25) == 0}
		if r.Intn(8) == 0 {
			in.Ans = nearClock(r, in.Ans)
		}
		if r.Intn(2) == 0 {
			in.Stored = storedKeys[r.Intn(len(storedKeys))]
		} else if r.Intn(10) == 0 {
			sa := nearClock(r, goodAns())
			in.Stored, in.StoredA = "near:"+sa.This+"/"+sa.Next, &sa
		}
		if in.Flavor == "deadurl" {
			in.Via = []string{"proxy", "override", "proxy", ""}[r.Intn(4)]
		} else if r.Intn(12) == 0 && in.Flavor == "normal" {
			in.Via = []string{"proxy", "override"}[r.Intn(2)]
		}
		if r.Intn(3) == 0 {
			p := wd.randAns(r)
			if r.Intn(2) == 0 {
				p = goodAns()
			}
			in.Prev = &p
		}
		if r.Intn(5) == 0 {
			in.Faults = c14Faults{Load: r.Intn(2) == 0, Store: r.Intn(2) == 0, Del: r.Intn(2) == 0}
		}
		if r.Intn(20) == 0 && in.Flavor == "normal" {
			in.Override = "off"
		}
		wd.runCall(in)
	}
	// ---- random histories ----
	for i := 0; i < nHist && wd.hung < 2; i++ {
		wd.runHist(wd.randPlan(r), nil)
	}
	finish()
	return nil
}
