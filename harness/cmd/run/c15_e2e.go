//go:build !skip_c15_e2e

package main

// C15, end-to-end: a validation request arrives at ANOTHER instance during a real order.
//
// Node A is this process: the real ACMEIssuer.Issue runs an order against the mock ACME CA.
// Node B is a second OS process (this binary started as "C15node"): its own process memory, a
// certmagic Config with an ACMEIssuer for the same CA on the SAME file storage, serving HTTP
// through ACMEIssuer.HTTPChallengeHandler(app) and TLS through Config.TLSConfig(). The CA's
// validation requests — and a few neighbours of them — are sent to node B over the network while
// the order is pending and again after it has finished. From B's point of view the history is
// [present remote] (then [clean remote]); each request is one case in the usual C15 format.

import (
	"bufio"
	"context"
	"crypto/ecdsa"
	"crypto/elliptic"
	crand "crypto/rand"
	"crypto/sha256"
	"crypto/tls"
	"crypto/x509"
	"encoding/asn1"
	"encoding/json"
	"fmt"
	"io"
	"net"
	"net/http"
	"net/url"
	"os"
	"os/exec"
	"path/filepath"
	"sort"
	"strings"
	"time"

	"github.com/caddyserver/certmagic"
	"go.uber.org/zap"

	"verifharness/pkg/doubles"
	"verifharness/pkg/emit"
	"verifharness/pkg/mockca"
)

func init() { register("C15node", runC15Node) }

// runC15Node is node B: started by the C15 harness as `run C15node - 0 <storage dir>` with the
// addresses in the environment; serves until its standard input is closed.
func runC15Node(_ string, _ int64, dir string, _ string) error {
	caURL, httpAddr, tlsAddr := os.Getenv("C15NODE_CA"), os.Getenv("C15NODE_HTTP"), os.Getenv("C15NODE_TLS")
	if caURL == "" || httpAddr == "" || tlsAddr == "" {
		return fmt.Errorf("C15node: not started by the C15 harness")
	}
	st := &certmagic.FileStorage{Path: dir}
	cfg, cache := doubles.NewConfig(st, certmagic.Config{DefaultServerName: "app.example", FallbackServerName: "app.example"}, certmagic.CacheOptions{})
	defer cache.Stop()
	iss := certmagic.NewACMEIssuer(cfg, certmagic.ACMEIssuer{CA: caURL, Email: "b@example.com", Agreed: true, Logger: zap.NewNop()})
	cfg.Issuers = []certmagic.Issuer{iss}
	ca := doubles.NewCA("C15 node B application CA")
	chain, _, key, err := ca.Leaf(doubles.LeafOpts{Names: []string{"app.example"}})
	if err != nil {
		return err
	}
	if _, err := cfg.CacheUnmanagedCertificatePEMBytes(context.Background(), chain, key, nil); err != nil {
		return err
	}
	app := http.HandlerFunc(func(w http.ResponseWriter, r *http.Request) {
		w.Header().Set("X-App", "1")
		if r.URL.Path == "/__mem" {
			var keys []string
			for _, m := range certmagic.VerifActiveChallenges() {
				keys = append(keys, m.Key)
			}
			json.NewEncoder(w).Encode(keys)
			return
		}
		w.Write([]byte("APP"))
	})
	hl, err := net.Listen("tcp", httpAddr)
	if err != nil {
		return err
	}
	go (&http.Server{Handler: iss.HTTPChallengeHandler(app)}).Serve(hl)
	tl, err := net.Listen("tcp", tlsAddr)
	if err != nil {
		return err
	}
	stop := tlsListener(tl, cfg)
	defer stop()
	fmt.Println("READY")
	io.Copy(io.Discard, os.Stdin)
	return nil
}

type c15E2E struct {
	Type  string `json:"type"`  // http-01 | tls-alpn-01
	Ident string `json:"ident"` // a.example | 192.0.2.7 | 2001:db8::7 (made unique per order)
}

type c15Node struct {
	cmd      *exec.Cmd
	stdin    io.WriteCloser
	dir      string
	httpAddr string
	tlsAddr  string
}

func (n *c15Node) stop() {
	if n == nil {
		return
	}
	n.stdin.Close()
	done := make(chan struct{})
	go func() { n.cmd.Wait(); close(done) }()
	select {
	case <-done:
	case <-time.After(5 * time.Second):
		n.cmd.Process.Kill()
		<-done
	}
	os.RemoveAll(n.dir)
}

func c15StartNode(caURL, host string) (*c15Node, error) {
	dir, err := os.MkdirTemp("", "c15node")
	if err != nil {
		return nil, err
	}
	exe, err := os.Executable()
	if err != nil {
		return nil, err
	}
	n := &c15Node{dir: dir, httpAddr: fmt.Sprintf("%s:%d", host, c15FreePort(host)), tlsAddr: fmt.Sprintf("%s:%d", host, c15FreePort(host))}
	n.cmd = exec.Command(exe, "C15node", "-", "0", dir)
	n.cmd.Env = append(os.Environ(), "C15NODE_CA="+caURL, "C15NODE_HTTP="+n.httpAddr, "C15NODE_TLS="+n.tlsAddr)
	n.cmd.Stderr = io.Discard
	n.stdin, _ = n.cmd.StdinPipe()
	out, _ := n.cmd.StdoutPipe()
	if err := n.cmd.Start(); err != nil {
		os.RemoveAll(dir)
		return nil, err
	}
	ready := make(chan bool, 1)
	go func() {
		sc := bufio.NewScanner(out)
		for sc.Scan() {
			if strings.TrimSpace(sc.Text()) == "READY" {
				ready <- true
				io.Copy(io.Discard, out)
				return
			}
		}
		ready <- false
	}()
	select {
	case ok := <-ready:
		if !ok {
			n.stop()
			return nil, fmt.Errorf("node B exited before it was ready")
		}
	case <-time.After(30 * time.Second):
		n.stop()
		return nil, fmt.Errorf("node B was not ready within 30 s")
	}
	return n, nil
}

// memKeys asks node B for the keys of its activeChallenges.
func (n *c15Node) memKeys() ([]string, error) {
	resp, err := (&http.Client{Timeout: 10 * time.Second, Transport: &http.Transport{DisableKeepAlives: true, Proxy: nil}}).Get("http://" + n.httpAddr + "/__mem")
	if err != nil {
		return nil, err
	}
	defer resp.Body.Close()
	var keys []string
	if err := json.NewDecoder(resp.Body).Decode(&keys); err != nil {
		return nil, err
	}
	return keys, nil
}

// storeKeys lists the token files of the shared storage as storage keys.
func (n *c15Node) storeKeys() []string {
	var out []string
	filepath.Walk(n.dir, func(p string, info os.FileInfo, err error) error {
		if err == nil && !info.IsDir() && strings.Contains(p, "challenge_tokens") {
			rel, _ := filepath.Rel(n.dir, p)
			out = append(out, filepath.ToSlash(rel))
		}
		return nil
	})
	sort.Strings(out)
	return out
}

// httpQuery sends q to node B over the network.
func (n *c15Node) httpQuery(q c15Query) (c15Obs, *url.URL, error) {
	o := c15Obs{KeyAuthOf: -1}
	u, err := url.ParseRequestURI(q.Target)
	if err != nil {
		return o, nil, err
	}
	rq, err := http.NewRequest(q.Method, "http://"+n.httpAddr+q.Target, nil)
	if err != nil {
		return o, nil, err
	}
	rq.Host = q.Host
	var resp *http.Response
	for try := 0; try < 2; try++ {
		resp, err = (&http.Client{Timeout: 10 * time.Second, Transport: &http.Transport{DisableKeepAlives: true, Proxy: nil}}).Do(rq)
		if err == nil {
			break
		}
	}
	if err != nil {
		return o, nil, err
	}
	defer resp.Body.Close()
	b, _ := io.ReadAll(io.LimitReader(resp.Body, 4096))
	o.WrappedRan = resp.Header.Get("X-App") == "1"
	o.Status, o.Body = resp.StatusCode, string(b)
	o.Handled = !o.WrappedRan
	if o.Handled && (resp.StatusCode != 200 || !strings.HasPrefix(resp.Header.Get("Content-Type"), "text/plain")) {
		o.Body = fmt.Sprintf("!status=%d ct=%s:", resp.StatusCode, resp.Header.Get("Content-Type")) + o.Body
	}
	return o, u, nil
}

// helloQuery makes a TLS connection to node B with the given SNI / ALPN list.
func (n *c15Node) helloQuery(q c15Query, chals []c15Chal) c15Obs {
	o := c15Obs{KeyAuthOf: -1}
	d := tls.Dialer{NetDialer: &net.Dialer{Timeout: 10 * time.Second}, Config: &tls.Config{ServerName: q.SNI, NextProtos: q.Protos, InsecureSkipVerify: true}}
	ctx, cancel := context.WithTimeout(context.Background(), 10*time.Second)
	defer cancel()
	conn, err := d.DialContext(ctx, "tcp", n.tlsAddr)
	if err != nil {
		// the server refused the handshake: over the network that is all one sees of an error
		// returned by GetCertificate
		o.Err, o.Class = err.Error(), "challenge-error"
		if !strings.Contains(o.Err, "remote error") {
			o.Class = "unknown"
		}
		return o
	}
	st := conn.(*tls.Conn).ConnectionState()
	conn.Close()
	if len(st.PeerCertificates) == 0 {
		o.Class = "unknown"
		return o
	}
	leaf := st.PeerCertificates[0]
	o.CertNames = leaf.DNSNames
	var digest []byte
	for _, ext := range leaf.Extensions {
		if ext.Id.Equal(c15OIDACMEIdentifier) {
			asn1.Unmarshal(ext.Value, &digest)
			if digest == nil {
				digest = []byte{}
			}
		}
	}
	if digest == nil {
		o.Class = "unknown"
		if len(leaf.DNSNames) == 1 && leaf.DNSNames[0] == "app.example" {
			o.Class = "normal"
		}
		return o
	}
	o.Class = "challenge-cert"
	for i, c := range chals {
		h := sha256.Sum256([]byte(c.KeyAuth))
		if string(h[:]) == string(digest) && len(leaf.DNSNames) == 1 && strings.EqualFold(leaf.DNSNames[0], c.Ident) {
			o.KeyAuthOf = i
		}
	}
	return o
}

type c15E2ERunner struct {
	w     *emit.Writer
	own   *c15OwnAnswers
	ca    *mockca.CA
	node  *c15Node
	cfgA  *certmagic.Config
	stopA func()
	host  string
	key   *ecdsa.PrivateKey
	seq   int
	n     int
	bad   []string
}

func c15NewE2E(w *emit.Writer, own *c15OwnAnswers, host string) (*c15E2ERunner, error) {
	certmagic.RateLimitEvents, certmagic.RateLimitEventsWindow = 0, 0
	r := &c15E2ERunner{w: w, own: own, host: host, ca: mockca.New(mockca.Options{TLS: true})}
	var err error
	if r.node, err = c15StartNode(r.ca.URL, host); err != nil {
		r.ca.Close()
		return nil, err
	}
	cfg, cache := doubles.NewConfig(&certmagic.FileStorage{Path: r.node.dir}, certmagic.Config{}, certmagic.CacheOptions{})
	r.cfgA, r.stopA = cfg, cache.Stop
	r.key, _ = ecdsa.GenerateKey(elliptic.P256(), crand.Reader)
	return r, nil
}

func (r *c15E2ERunner) close() {
	r.ca.SetValidator(nil)
	r.stopA()
	r.node.stop()
	r.ca.Close()
}

// order runs one real order on node A and questions node B while it is pending and afterwards.
func (r *c15E2ERunner) order(sc c15E2E) error {
	r.seq++
	ident := c15Uniq(sc.Ident, 900+r.seq)
	idType := "dns"
	tmplCSR := &x509.CertificateRequest{}
	if ip := net.ParseIP(ident); ip != nil {
		idType = "ip"
		tmplCSR.IPAddresses = []net.IP{ip}
	} else {
		tmplCSR.DNSNames = []string{ident}
	}
	der, err := x509.CreateCertificateRequest(crand.Reader, tmplCSR, r.key)
	if err != nil {
		return err
	}
	csr, err := x509.ParseCertificateRequest(der)
	if err != nil {
		return err
	}
	iss := certmagic.NewACMEIssuer(r.cfgA, certmagic.ACMEIssuer{CA: r.ca.URL, Email: "a@example.com", Agreed: true, Logger: zap.NewNop(),
		TrustedRoots: r.ca.Roots(), HTTPProxy: func(*http.Request) (*url.URL, error) { return nil, nil },
		ListenHost: r.host, AltHTTPPort: c15FreePort(r.host), AltTLSALPNPort: c15FreePort(r.host),
		DisableHTTPChallenge: sc.Type != "http-01", DisableTLSALPNChallenge: sc.Type != "tls-alpn-01"})
	r.own.issuerKey(iss, r.ca.URL)
	issKeys := []string{c15IssuerKeyOf(r.ca.URL)}
	arrivals := make(chan c16ArrivalLite, 4)
	r.ca.SetValidator(func(v mockca.Validation) *mockca.Problem {
		a := c16ArrivalLite{v: v, reply: make(chan *mockca.Problem, 1)}
		arrivals <- a
		select {
		case p := <-a.reply:
			return p
		case <-time.After(60 * time.Second):
			return mockca.Prob(500, "serverInternal", "harness did not answer")
		}
	})
	defer r.ca.SetValidator(nil)
	done := make(chan error, 1)
	go func() {
		ctx, cancel := context.WithTimeout(context.Background(), 60*time.Second)
		defer cancel()
		_, err := iss.Issue(ctx, csr)
		done <- err
	}()
	var chal c15Chal
	idk := "dns"
	if idType == "ip" {
		idk = "ipv4"
		if strings.Contains(ident, ":") {
			idk = "ipv6"
		}
	}
	hostExact := ident
	if idk == "ipv6" {
		hostExact = "[" + ident + "]"
	}
	ask := func(ops []c15Op, state string, verdict *bool) {
		key := c15KeyOf(chal.acme())
		type qd struct {
			q c15Query
			d map[string]any
		}
		exact := c15Base + "/" + chal.Token
		qs := []qd{
			{c15Query{Kind: "http", Method: "GET", Target: exact, Host: hostExact}, map[string]any{"host": "exact", "path": "exact", "method": "GET"}},
			{c15Query{Kind: "http", Method: "GET", Target: exact, Host: net.JoinHostPort(ident, "80")}, map[string]any{"host": "port80", "path": "exact", "method": "GET"}},
			{c15Query{Kind: "http", Method: "GET", Target: exact, Host: "other.example"}, map[string]any{"host": "other", "path": "exact", "method": "GET"}},
			{c15Query{Kind: "http", Method: "GET", Target: exact + "x", Host: hostExact}, map[string]any{"host": "exact", "path": "longer", "method": "GET"}},
			{c15Query{Kind: "http", Method: "POST", Target: exact, Host: hostExact}, map[string]any{"host": "exact", "path": "exact", "method": "POST"}},
			{c15Query{Kind: "hello", SNI: key, Protos: []string{"acme-tls/1"}}, map[string]any{"sni": "exact", "protos": "acme-only"}},
			{c15Query{Kind: "hello", SNI: key + "x", Protos: []string{"acme-tls/1"}}, map[string]any{"sni": "suffixed", "protos": "acme-only"}},
			{c15Query{Kind: "hello", SNI: key, Protos: []string{"acme-tls/1", "h2"}}, map[string]any{"sni": "exact", "protos": "acme+h2"}},
			{c15Query{Kind: "hello", SNI: key, Protos: []string{"h2"}}, map[string]any{"sni": "exact", "protos": "h2"}},
		}
		mem, merr := r.node.memKeys()
		if merr != nil {
			r.bad = append(r.bad, "node B /__mem: "+merr.Error())
		}
		var memKH [][2]any
		for _, k := range mem {
			memKH = append(memKH, [2]any{k, false})
		}
		store := r.node.storeKeys()
		for qi, x := range qs {
			if x.q.Kind == "hello" && net.ParseIP(key) != nil {
				continue // a TLS client does not put an IP literal into the SNI
			}
			var obs c15Obs
			var u *url.URL
			if x.q.Kind == "http" {
				var err error
				if obs, u, err = r.node.httpQuery(x.q); err != nil {
					r.bad = append(r.bad, "request to node B: "+err.Error())
					continue
				}
			} else {
				obs = r.node.helloQuery(x.q, []c15Chal{chal})
			}
			obs.MemKeys, obs.StoreKeys = mem, store
			if verdict != nil && ((qi == 0 && chal.Type == "http-01") || (qi == 5 && chal.Type == "tls-alpn-01")) {
				// the request a conforming CA makes for this challenge: its result is the CA's verdict
				*verdict = (x.q.Kind == "http" && obs.Handled && obs.Body == chal.KeyAuth) || (x.q.Kind == "hello" && obs.Class == "challenge-cert" && obs.KeyAuthOf == 0)
			}
			in := c15In{Chals: []c15Chal{chal}, Ops: ops, Query: x.q, E2E: &sc}
			enc := c15Wire(r.own, issKeys, in.Chals, ops, memKH, store, x.q, u, obs)
			d := x.d
			d["scenario"], d["targets"], d["ident_kind"], d["chal_type"], d["query"] = "e2e-other-node", state, idk, chal.Type, x.q.Kind
			answered := (x.q.Kind == "http" && obs.Handled) || obs.Class == "challenge-cert"
			d["answered"] = answered
			for k, v := range d {
				if s, ok := v.(string); ok {
					r.w.Hist(k + "=" + s)
				}
			}
			r.w.Hist(fmt.Sprintf("%s_answered=%v", x.q.Kind, answered))
			r.w.Add(emit.Case{Desc: d, In: in, Obs: obs, Wire: enc.String(), Nontrivial: true})
			r.n++
		}
	}
	var issueErr error
	select {
	case a := <-arrivals:
		chal = c15Chal{Type: a.v.Type, Token: a.v.Token, KeyAuth: a.v.KeyAuth, IDType: a.v.IdentType, Ident: a.v.Ident}
		if chal.Ident != ident || chal.Type != sc.Type {
			a.reply <- mockca.Prob(400, "malformed", "unexpected validation")
			<-done
			return fmt.Errorf("C15 e2e: the CA was asked to validate %+v, expected %s %s", a.v, sc.Type, ident)
		}
		ok := false
		ask([]c15Op{{Kind: "present", Place: "remote", J: 0, C: 0}}, "remote", &ok)
		if ok {
			a.reply <- nil
		} else {
			a.reply <- mockca.Prob(403, "unauthorized", "node B did not answer the validation request")
		}
		issueErr = <-done
		if ok && issueErr != nil {
			r.bad = append(r.bad, fmt.Sprintf("order for %s (%s) failed although node B answered the validation: %v", ident, sc.Type, issueErr))
		}
		ask([]c15Op{{Kind: "present", Place: "remote", J: 0, C: 0}, {Kind: "clean", Place: "remote", J: 0, C: 0}}, "cleaned", nil)
	case issueErr = <-done:
		return fmt.Errorf("C15 e2e: order for %s (%s) ended before validation: %v", ident, sc.Type, issueErr)
	case <-time.After(60 * time.Second):
		return fmt.Errorf("C15 e2e: order for %s (%s): no validation within 60 s", ident, sc.Type)
	}
	r.w.Hist("scenario=e2e-other-node")
	return nil
}

type c16ArrivalLite struct {
	v     mockca.Validation
	reply chan *mockca.Problem
}
