//go:build !skip_c16_e2e

package main

// C16, second tie: whole orders through the REAL ACMEIssuer (Issue) against the mock ACME CA
// (pkg/mockca), which really validates: HTTP-01 by fetching
// http://<ListenHost>:<AltHTTPPort>/.well-known/acme-challenge/<token> with Host = identifier,
// TLS-ALPN-01 by dialling <ListenHost>:<AltTLSALPNPort> with acme-tls/1 and SNI = identifier,
// DNS-01 by asking the libdns provider double. The validator callback of the CA is the sync point:
// while the CA validates, every challenge of the order has been presented and none cleaned up.
//
// A scenario yields one case per sync point (a prefix of the Present / CleanUp history in acmez's
// discipline, judged at its end) with the usual observations (solvers table, connect probes,
// activeChallenges, token keys, provider records, DNSManager memory) and end-to-end items: what
// the CA's validation request got, and how Issue ended.

import (
	"context"
	"crypto/ecdsa"
	"crypto/elliptic"
	crand "crypto/rand"
	"crypto/sha256"
	"crypto/x509"
	"encoding/base64"
	"encoding/json"
	"fmt"
	"math/rand"
	"net"
	"net/http"
	"net/url"
	"os"
	"strings"
	"sync"
	"time"

	"github.com/caddyserver/certmagic"
	"github.com/libdns/libdns"
	"github.com/mholt/acmez/v3"
	"github.com/mholt/acmez/v3/acme"
	"go.uber.org/zap"

	"verifharness/pkg/doubles"
	"verifharness/pkg/emit"
	"verifharness/pkg/mockca"
)

// c16E2E describes an end-to-end scenario (the In of its cases; enough to replay it).
type c16E2E struct {
	Shape   string `json:"shape"`   // single | two | multi
	Kind    string `json:"kind"`    // http | tlsalpn | dns
	Variant string `json:"variant"` // see c16E2EVariants
}

// single: success | ca-rejects | cancel | bind-error | occupied-dumb | occupied-answering |
// store-fails | token-delete-fails | append-fails | record-delete-fails
// two:    both-succeed | first-rejected | first-cancelled
// multi:  success

type c16Item struct {
	Outcome    bool `json:"outcome,omitempty"` // false: validation item
	Order      int  `json:"order"`
	Other      bool `json:"other,omitempty"`
	Validated  bool `json:"validated,omitempty"`
	CARejects  bool `json:"ca_rejects,omitempty"`
	Cancelled  bool `json:"cancelled,omitempty"`
	Observed   bool `json:"observed"`
	IssueError string `json:"issue_error,omitempty"`
}

// ---- recording wrapper around the real DNS01Solver: the calls acmez really makes

type c16RecCall struct {
	Call  string // present | wait | cleanup
	Token string
	Err   bool
	CtxCancelled bool
}

type c16RecSolver struct {
	inner *certmagic.DNS01Solver
	mu    sync.Mutex
	calls []c16RecCall
}

func (s *c16RecSolver) rec(call string, ctx context.Context, ch acme.Challenge, err error) {
	s.mu.Lock()
	s.calls = append(s.calls, c16RecCall{Call: call, Token: ch.Token, Err: err != nil, CtxCancelled: ctx.Err() != nil})
	s.mu.Unlock()
}
func (s *c16RecSolver) Present(ctx context.Context, ch acme.Challenge) error {
	err := s.inner.Present(ctx, ch)
	s.rec("present", ctx, ch, err)
	return err
}
func (s *c16RecSolver) Wait(ctx context.Context, ch acme.Challenge) error {
	err := s.inner.Wait(ctx, ch)
	s.rec("wait", ctx, ch, err)
	return err
}
func (s *c16RecSolver) CleanUp(ctx context.Context, ch acme.Challenge) error {
	err := s.inner.CleanUp(ctx, ch)
	s.rec("cleanup", ctx, ch, err)
	return err
}

var _ acmez.Waiter = (*c16RecSolver)(nil)

// ---- environment

type c16E2EEnv struct {
	ca      *mockca.CA
	key     *ecdsa.PrivateKey
	discN   int
	discBad []string
	issued  int
	nOrders int
}

func (e *c16Env) e2eEnv() *c16E2EEnv {
	if e.x == nil {
		certmagic.RateLimitEvents, certmagic.RateLimitEventsWindow = 0, 0 // no client-side throttling of the handful of orders
		k, _ := ecdsa.GenerateKey(elliptic.P256(), crand.Reader)
		e.x = &c16E2EEnv{ca: mockca.New(mockca.Options{TLS: true}), key: k}
	}
	return e.x
}

func (e *c16Env) closeE2E() {
	if e.x != nil {
		e.x.ca.SetValidator(nil)
		e.x.ca.Close()
	}
}

type c16Arrival struct {
	v     mockca.Validation
	reply chan *mockca.Problem
}

type c16Call struct {
	orders []int // indices into in.Orders, one per identifier of the CSR
	names  []string
	ctx    context.Context
	cancel context.CancelFunc
	done   chan struct{}
	err    error
	cert   *certmagic.IssuedCertificate
}

type c16Scn struct {
	e        *c16Env
	x        *c16E2EEnv
	w        *emit.Writer
	in       c16In
	desc     map[string]any
	h        *c16Hist
	names    []string // per order: identifier as ordered (may carry "*.")
	calls    []*c16Call
	arrivals chan c16Arrival
	rec      *c16RecSolver
	answerer func() // stops the answering server on an occupied address
	steps    []c16Step
	binds    []int
	known    []bool // chals[i] filled in
	emitMid  bool
	failed   string // scenario could not be driven to its end (reported as an observation that satisfies nothing)
}

func c16B64(b []byte) string { return base64.RawURLEncoding.EncodeToString(b) }

// c16DNSRec: record name and TXT value of a dns-01 challenge, computed independently (RFC 8555 8.4).
func c16DNSRec(ident, keyAuth string) (string, string) {
	h := sha256.Sum256([]byte(keyAuth))
	return "_acme-challenge." + strings.TrimPrefix(ident, "*."), c16B64(h[:])
}

func (s *c16Scn) csr(names []string) (*x509.CertificateRequest, error) {
	der, err := x509.CreateCertificateRequest(crand.Reader, &x509.CertificateRequest{DNSNames: names}, s.x.key)
	if err != nil {
		return nil, err
	}
	return x509.ParseCertificateRequest(der)
}

// setup builds addresses, the issuer template and the runtime calls.
func (s *c16Scn) setup(callGroups [][]int) error {
	e, in := s.e, s.in
	e.seq++
	h := &c16Hist{in: in, provider: &doubles.DNSProviderDouble{MinTTL: c16MinTTL}, preMem: map[string]bool{}}
	s.h = h
	e.backend.HonourCtx = in.Honour
	for _, k := range e.backend.Keys() {
		if strings.Contains(k, "challenge_tokens") {
			e.backend.Remove(k)
		}
	}
	for _, m := range certmagic.VerifActiveChallenges() {
		h.preMem[m.Key] = true
	}
	for _, kind := range in.Addrs {
		switch kind {
		case "free":
			h.addrs = append(h.addrs, fmt.Sprintf("%s:%d", e.host, c15FreePort(e.host)))
		case "occupied":
			ln, err := net.Listen("tcp", fmt.Sprintf("%s:%d", e.host, c15FreePort(e.host)))
			if err != nil {
				return err
			}
			h.occ = append(h.occ, ln)
			h.addrs = append(h.addrs, ln.Addr().String())
		case "invalid":
			h.addrs = append(h.addrs, fmt.Sprintf("%s:%d", e.host, 70000+e.seq%1000))
		}
	}
	h.ik = c15IssuerKeyOf(s.x.ca.URL)
	h.dnsSolv = &certmagic.DNS01Solver{DNSManager: certmagic.DNSManager{DNSProvider: h.provider, TTL: time.Duration(in.DNSTTL) * time.Second, PropagationTimeout: -1, Resolvers: []string{"127.0.0.1:1"}}}
	if in.E2E.Variant == "cancel-in-wait" {
		h.dnsSolv.PropagationDelay = 20 * time.Second // acmez's Wait blocks here until the context is cancelled
	}
	s.rec = &c16RecSolver{inner: h.dnsSolv}
	h.chals = make([]acme.Challenge, len(in.Orders))
	s.known = make([]bool, len(in.Orders))
	s.names = make([]string, len(in.Orders))
	for i, o := range in.Orders {
		s.names[i] = fmt.Sprintf("%s-%d.example", o.Ident, e.seq)
		if strings.HasPrefix(o.Ident, "*.") {
			s.names[i] = fmt.Sprintf("*.%s-%d.example", o.Ident[2:], e.seq)
		}
		if o.Kind == "dns" {
			certmagic.VerifSeedZone("_acme-challenge."+strings.TrimPrefix(s.names[i], "*."), "example.")
		}
	}
	for ci, g := range callGroups {
		o0 := in.Orders[g[0]]
		tmpl := certmagic.ACMEIssuer{CA: s.x.ca.URL, Email: fmt.Sprintf("e2e-%d-%d@example.com", e.seq, ci), Agreed: true, Logger: zap.NewNop(),
			TrustedRoots: s.x.ca.Roots(), HTTPProxy: func(*http.Request) (*url.URL, error) { return nil, nil }}
		switch o0.Kind {
		case "dns":
			tmpl.DNS01Solver = s.rec
		default:
			hostp, portp, _ := net.SplitHostPort(h.addrs[o0.Addr])
			var port int
			fmt.Sscanf(portp, "%d", &port)
			// the two challenge types have their own ports; only the ordered one's is where the CA looks
			tmpl.ListenHost, tmpl.AltHTTPPort, tmpl.AltTLSALPNPort = hostp, port, port
			if o0.Kind == "http" {
				tmpl.AltTLSALPNPort = c15FreePort(hostp)
			} else {
				tmpl.AltHTTPPort = c15FreePort(hostp)
			}
			tmpl.DisableHTTPChallenge = o0.Kind != "http"
			tmpl.DisableTLSALPNChallenge = o0.Kind != "tlsalpn"
			if in.E2E.Shape == "retry" {
				// the default configuration: both challenge types enabled, each on its own port
				// (orders[0] is the HTTP-01 challenge of the name, orders[1] its TLS-ALPN-01 challenge)
				_, p1, _ := net.SplitHostPort(h.addrs[in.Orders[1].Addr])
				fmt.Sscanf(p1, "%d", &tmpl.AltTLSALPNPort)
				tmpl.AltHTTPPort = port
				tmpl.DisableHTTPChallenge, tmpl.DisableTLSALPNChallenge = false, false
			}
		}
		iss := certmagic.NewACMEIssuer(e.cfg, tmpl)
		if ci == 0 {
			e.own.issuerKey(iss, s.x.ca.URL)
		}
		c := &c16Call{orders: g, done: make(chan struct{})}
		for _, i := range g {
			if in.E2E.Shape == "retry" && len(c.names) > 0 {
				break // one name, two challenge types
			}
			c.names = append(c.names, s.names[i])
		}
		c.ctx, c.cancel = context.WithCancel(context.Background())
		s.calls = append(s.calls, c)
		csr, err := s.csr(c.names)
		if err != nil {
			return err
		}
		// the issuer of the call is kept through the closure of start
		cc, issuer := c, iss
		c16Starters[cc] = func() {
			go func() {
				defer close(cc.done)
				defer func() {
					if p := recover(); p != nil {
						cc.err = fmt.Errorf("PANIC in Issue: %v", p)
					}
				}()
				cc.cert, cc.err = issuer.Issue(cc.ctx, csr)
			}()
		}
	}
	s.arrivals = make(chan c16Arrival, 8)
	s.x.ca.SetValidator(func(v mockca.Validation) *mockca.Problem {
		a := c16Arrival{v: v, reply: make(chan *mockca.Problem, 1)}
		s.arrivals <- a
		select {
		case p := <-a.reply:
			return p
		case <-time.After(60 * time.Second):
			return mockca.Prob(500, "serverInternal", "harness did not answer the validation")
		}
	})
	return nil
}

var c16Starters = map[*c16Call]func(){}

func (s *c16Scn) start(ci int) { c16Starters[s.calls[ci]](); delete(c16Starters, s.calls[ci]) }

// orderOf maps a validation to the order index.
func (s *c16Scn) orderOf(v mockca.Validation) int {
	typ := map[string]string{"http": "http-01", "tlsalpn": "tls-alpn-01", "dns": "dns-01"}
	for i, n := range s.names {
		if strings.TrimPrefix(n, "*.") == v.Ident && strings.HasPrefix(n, "*.") == v.Wildcard && typ[s.in.Orders[i].Kind] == v.Type {
			return i
		}
	}
	return -1
}

func (s *c16Scn) learn(i int, typ, token, keyAuth string) {
	ident := strings.TrimPrefix(s.names[i], "*.")
	s.h.chals[i] = acme.Challenge{Type: typ, Token: token, KeyAuthorization: keyAuth, Identifier: acme.Identifier{Type: "dns", Value: ident}}
	s.known[i] = true
}

// learnFromCA fills in the challenges of orders that never reached validation.
func (s *c16Scn) learnFromCA() {
	typ := map[string]string{"http": "http-01", "tlsalpn": "tls-alpn-01", "dns": "dns-01"}
	for i, o := range s.in.Orders {
		if s.known[i] {
			continue
		}
		for _, c := range s.x.ca.Challenges() {
			if c.Ident == s.names[i] && c.Type == typ[o.Kind] {
				s.learn(i, c.Type, c.Token, c.Token+"."+s.x.ca.ThumbprintOf(c.Account)) // the last one wins (a retried order)
			}
		}
		if !s.known[i] { // the order never got as far as an authorization
			s.learn(i, typ[o.Kind], "none", "none.none")
		}
	}
}

// await waits for n validations to arrive; fewer if every call has returned meanwhile.
func (s *c16Scn) await(n int) []c16Arrival {
	var out []c16Arrival
	if s.emitMid {
		// (cancel-in-wait) the challenge is presented and acmez is inside Wait: observe, then cancel
		s.emitMid = false
		s.step(c16Step{Order: 0})
		s.emit(nil, "waiting")
		s.steps, s.binds = nil, nil
		s.calls[0].cancel()
	}
	allDone := make(chan struct{})
	go func() {
		for _, c := range s.calls {
			<-c.done
		}
		close(allDone)
	}()
	deadline := time.After(40 * time.Second)
	for len(out) < n {
		select {
		case a := <-s.arrivals:
			if i := s.orderOf(a.v); i >= 0 {
				s.learn(i, a.v.Type, a.v.Token, a.v.KeyAuth)
				out = append(out, a)
			} else {
				a.reply <- mockca.Prob(400, "malformed", "validation of an unknown identifier")
			}
		case <-allDone:
			// a validation may still be in the channel
			select {
			case a := <-s.arrivals:
				if i := s.orderOf(a.v); i >= 0 {
					s.learn(i, a.v.Type, a.v.Token, a.v.KeyAuth)
					out = append(out, a)
				}
				continue
			default:
			}
			return out
		case <-deadline:
			s.failed = fmt.Sprintf("only %d of %d validations arrived within 40 s", len(out), n)
			return out
		}
	}
	return out
}

func (s *c16Scn) waitCall(ci int) bool {
	select {
	case <-s.calls[ci].done:
		return true
	case <-time.After(40 * time.Second):
		s.failed = fmt.Sprintf("Issue of call %d did not return within 40 s", ci)
		return false
	}
}

// validate does what a conforming CA does for the challenge of order i, over the network.
func (s *c16Scn) validate(i int) (ok bool, detail string) {
	o, ch := s.in.Orders[i], s.h.chals[i]
	ctx, cancel := context.WithTimeout(context.Background(), mockca.ValidationTimeout)
	defer cancel()
	for try := 0; try < 2; try++ { // a loaded machine may time a local connection out: once more
		switch o.Kind {
		case "http":
			st, body, err := mockca.FetchHTTP01(ctx, s.h.addrs[o.Addr], ch.Identifier.Value, ch.Token)
			if err != nil {
				ok, detail = false, err.Error()
				if strings.Contains(detail, "refused") {
					return
				}
				continue
			}
			return st == 200 && body == ch.KeyAuthorization, fmt.Sprintf("status %d body %q", st, body)
		case "tlsalpn":
			res, err := mockca.DialTLSALPN01(ctx, s.h.addrs[o.Addr], ch.Identifier.Value)
			if err != nil {
				ok, detail = false, err.Error()
				if strings.Contains(detail, "refused") || strings.Contains(detail, "remote error") || strings.Contains(detail, "EOF") {
					return
				}
				continue
			}
			if p := mockca.CheckTLSALPN01(res, "dns", ch.Identifier.Value, ch.KeyAuthorization, true); p != nil {
				return false, p.Detail
			}
			return true, ""
		default:
			name, val := c16DNSRec(s.names[i], ch.KeyAuthorization)
			for _, rr := range s.h.provider.Snapshot() {
				if strings.TrimSuffix(libdns.AbsoluteName(rr.Name, rr.Zone), ".") == name && rr.Type == "TXT" && rr.Data == val {
					return true, ""
				}
			}
			return false, "TXT record not found"
		}
	}
	return
}

// presentOrder: the order in which the challenges were presented, from the traces the Present
// calls leave (token Store of the distributed solver; AppendRecords of the provider).
func (s *c16Scn) presentOrder(cands []int) []int {
	pos := map[int]int{}
	for _, i := range cands {
		pos[i] = 1 << 30
	}
	if s.in.Orders[cands[0]].Kind == "dns" {
		for k, c := range s.h.provider.Calls {
			if c.Kind != "Append" {
				continue
			}
			for _, i := range cands {
				_, val := c16DNSRec(s.names[i], s.h.chals[i].KeyAuthorization)
				if len(c.Recs) == 1 && c.Recs[0].Data == val && pos[i] == 1<<30 {
					pos[i] = k
				}
			}
		}
	} else {
		for k, op := range s.e.backend.Log.Snapshot() {
			if op.Kind != "Store" || !strings.Contains(op.Key, "challenge_tokens") {
				continue
			}
			for _, i := range cands {
				if op.Key == c15TokensKey(s.h.ik, c15KeyOf(s.h.chals[i])) && pos[i] == 1<<30 {
					pos[i] = k
				}
			}
		}
	}
	out := append([]int(nil), cands...)
	for a := 0; a < len(out); a++ {
		for b := a + 1; b < len(out); b++ {
			if pos[out[b]] < pos[out[a]] {
				out[a], out[b] = out[b], out[a]
			}
		}
	}
	return out
}

// emit writes the case of the history so far, judged at its end.
func (s *c16Scn) emit(items []c16Item, label string) {
	e, h, in := s.e, s.h, s.in
	s.learnFromCA()
	var snap c16Snap
	if s.failed != "" {
		fmt.Fprintf(os.Stderr, "C16 e2e scenario %+v: %s\n", *in.E2E, s.failed)
		e.hung = true
		snap = c16Snap{err: true, errStr: s.failed, solvers: []certmagic.VerifSolverInfo{{Address: "hung", Count: -999}}}
	} else {
		snap = e.observe(h, nil)
	}
	enc := &emit.Enc{}
	enc.Len(0).Len(0)
	enc.Bool(in.Honour)
	enc.Len(len(in.Orders))
	for i, o := range in.Orders {
		ch := h.chals[i]
		enc.Int(map[string]int{"http": 0, "tlsalpn": 1, "dns": 2}[o.Kind])
		if o.Kind == "dns" {
			enc.Str("")
		} else {
			enc.Str(h.addrs[o.Addr])
		}
		enc.Str(h.ik)
		c15EncChal(enc, c15Chal{Type: ch.Type, Token: ch.Token, KeyAuth: ch.KeyAuthorization, IDType: ch.Identifier.Type, Ident: ch.Identifier.Value})
		n, v := c16DNSRec(s.names[i], ch.KeyAuthorization)
		enc.Str(n).Str(v)
	}
	var occ []string
	for i, k := range in.Addrs {
		if k == "occupied" {
			occ = append(occ, h.addrs[i])
		}
	}
	enc.StrList(occ)
	enc.Bool(true) // judged at the end of the prefix only
	enc.Len(len(s.steps))
	var obs c16Obs
	for k, st := range s.steps {
		enc.Bool(st.Clean).Int(st.Order).Bool(st.Cancel).Bool(st.Storage).Bool(st.Provider).Int(s.binds[k])
		if k == len(s.steps)-1 {
			obs = c16EncSnap(enc, snap, h)
		} else {
			c16EncSnap(enc, c16Snap{}, h)
		}
	}
	enc.Len(len(items))
	for _, it := range items {
		if it.Outcome {
			enc.Int(1).Int(it.Order).Bool(it.Validated).Bool(it.CARejects).Bool(it.Cancelled).Bool(it.Observed)
		} else {
			enc.Int(0).Int(it.Order).Bool(it.Other).Bool(it.Observed)
		}
	}
	enc.Len(0) // no configuration
	inCase := in
	inCase.Steps = append([]c16Step(nil), s.steps...)
	desc := map[string]any{}
	for k, v := range s.desc {
		desc[k] = v
	}
	desc["point"] = label
	s.w.Hist("e2e_point=" + label)
	key, _ := json.Marshal(inCase)
	s.w.Add(emit.Case{Desc: desc, In: inCase, Obs: map[string]any{"state": obs, "e2e": items}, Wire: enc.String(), Nontrivial: true, Key: string(key) + label})
}

// bindOf: what the bind of order i's Present gave, read off the solvers table right after it.
func (s *c16Scn) bindOf(i int) int {
	o := s.in.Orders[i]
	if o.Kind == "dns" {
		return 0
	}
	switch s.in.Addrs[o.Addr] {
	case "occupied":
		return 1
	case "invalid":
		return 2
	}
	return 0
}

func (s *c16Scn) step(st c16Step) {
	s.steps = append(s.steps, st)
	b := 0
	if !st.Clean {
		b = s.bindOf(st.Order)
	}
	s.binds = append(s.binds, b)
}

// discipline checks the calls acmez made on the recorded DNS solver: per challenge Present once,
// then CleanUp exactly once, also after a failed Present; nothing after CleanUp.
func (s *c16Scn) discipline() {
	if s.rec == nil {
		return
	}
	s.rec.mu.Lock()
	defer s.rec.mu.Unlock()
	per := map[string][]c16RecCall{}
	var toks []string
	for _, c := range s.rec.calls {
		if _, ok := per[c.Token]; !ok {
			toks = append(toks, c.Token)
		}
		per[c.Token] = append(per[c.Token], c)
	}
	for _, t := range toks {
		s.x.discN++
		var seq []string
		for _, c := range per[t] {
			x := c.Call
			if c.Err {
				x += "!"
			}
			seq = append(seq, x)
		}
		j := strings.Join(seq, " ")
		switch j {
		case "present wait cleanup", "present wait cleanup!", "present! cleanup", "present! cleanup!", "present cleanup", "present cleanup!", "present wait! cleanup", "present wait! cleanup!":
		default:
			s.x.discBad = append(s.x.discBad, fmt.Sprintf("%+v: calls on one challenge were [%s]", *s.in.E2E, j))
		}
	}
}

func (e *c16Env) runE2E(w *emit.Writer, in c16In, desc map[string]any, r *rand.Rand) error {
	x := e.e2eEnv()
	s := &c16Scn{e: e, x: x, w: w, in: in, desc: desc}
	sc := *in.E2E
	var groups [][]int
	switch sc.Shape {
	case "single":
		groups = [][]int{{0}}
	case "two":
		groups = [][]int{{0}, {1}}
	case "multi", "retry":
		groups = [][]int{{0, 1}}
	default:
		return fmt.Errorf("bad e2e shape %q", sc.Shape)
	}
	if err := s.setup(groups); err != nil {
		return err
	}
	defer func() {
		x.ca.SetValidator(nil)
		for _, c := range s.calls {
			c.cancel()
		}
		if s.answerer != nil {
			s.answerer()
		}
		s.h.close()
		e.failOp = ""
	}()
	for k, v := range desc {
		if str, ok := v.(string); ok {
			w.Hist(k + "=" + str)
		}
	}
	w.Hist("e2e=" + sc.Shape + "/" + sc.Kind + "/" + sc.Variant)
	for _, o := range in.Orders {
		w.Hist("order_kind=" + o.Kind)
	}
	x.nOrders += len(groups)
	outcome := func(ci int, validated, rejects, cancelled bool) []c16Item {
		c := s.calls[ci]
		var its []c16Item
		for _, i := range c.orders {
			it := c16Item{Outcome: true, Order: i, Validated: validated, CARejects: rejects, Cancelled: cancelled, Observed: c.err == nil && c.cert != nil}
			if c.err != nil {
				it.IssueError = c.err.Error()
				if len(it.IssueError) > 300 {
					it.IssueError = it.IssueError[:300]
				}
			}
			if it.Observed {
				// the certificate is for the names that were ordered
				leaf := mockca.PEMOf(c.cert.Certificate)
				if leaf == nil || len(leaf.DNSNames) != len(c.names) {
					it.Observed = false
					it.IssueError = "certificate does not carry the ordered names"
				}
			}
			its = append(its, it)
		}
		return its
	}
	other := false
	switch sc.Shape {
	case "single":
		switch sc.Variant {
		case "occupied-dumb":
			ln := s.h.occ[0]
			go func() {
				for {
					c, err := ln.Accept()
					if err != nil {
						return
					}
					c.Close()
				}
			}()
		case "occupied-answering":
			// another server of the same process holds the address and answers through certmagic's own
			// handler / GetCertificate (what robustTryListen assumes of whoever holds the port)
			other = true
			ln := s.h.occ[0]
			iss2 := certmagic.NewACMEIssuer(e.cfg, certmagic.ACMEIssuer{CA: x.ca.URL, Logger: zap.NewNop()})
			if sc.Kind == "http" {
				srv := &http.Server{Handler: iss2.HTTPChallengeHandler(http.NotFoundHandler())}
				go srv.Serve(ln)
				s.answerer = func() { srv.Close() }
			} else {
				cfg2, cache2 := doubles.NewConfig(doubles.NilCtxStorage{S: e.backend.Handle("A2")}, certmagic.Config{}, certmagic.CacheOptions{})
				cfg2.Issuers = []certmagic.Issuer{certmagic.NewACMEIssuer(cfg2, certmagic.ACMEIssuer{CA: x.ca.URL, Logger: zap.NewNop()})}
				tl := tlsListener(ln, cfg2)
				s.answerer = func() { tl(); cache2.Stop() }
			}
		case "store-fails":
			e.failOp = "Store"
		case "append-fails":
			s.h.provider.FailAppend = 1
		}
		s.start(0)
		if sc.Variant == "cancel-in-wait" {
			// the record is there, acmez waits for the solver (propagation delay): cancel now
			for i := 0; i < 2000 && len(s.h.provider.Snapshot()) == 0; i++ {
				time.Sleep(5 * time.Millisecond)
			}
			s.emitMid = true
		}
		arr := s.await(1)
		pst := c16Step{Order: 0, Storage: sc.Variant == "store-fails", Provider: sc.Variant == "append-fails"}
		s.step(pst)
		validated, rejects, cancelled := false, false, false
		if len(arr) == 1 && s.failed == "" {
			ok, _ := s.validate(0)
			validated = ok
			s.emit([]c16Item{{Order: 0, Other: other, Observed: ok}}, "validating")
			cst := c16Step{Clean: true, Order: 0}
			switch sc.Variant {
			case "ca-rejects":
				rejects = true
				arr[0].reply <- mockca.Prob(403, "unauthorized", "the CA did not see the expected response")
			case "cancel":
				cancelled, cst.Cancel = true, true
				s.calls[0].cancel()
				s.waitCall(0)
				arr[0].reply <- nil
			case "token-delete-fails":
				e.failOp, cst.Storage = "Delete", true
				arr[0].reply <- nil
			case "record-delete-fails":
				s.h.provider.FailDelete, cst.Provider = 1, true
				arr[0].reply <- nil
			default:
				if ok {
					arr[0].reply <- nil
				} else {
					arr[0].reply <- mockca.Prob(403, "unauthorized", "validation failed")
				}
			}
			s.waitCall(0)
			s.step(cst)
		} else {
			// Present failed (or the order never got there): acmez cleans up all the same
			s.waitCall(0)
			s.step(c16Step{Clean: true, Order: 0, Cancel: sc.Variant == "cancel-in-wait"})
			cancelled = sc.Variant == "cancel-in-wait"
		}
		e.failOp = ""
		items := outcome(0, validated, rejects, cancelled)
		if s.failed == "" && sc.Variant != "record-delete-fails" && sc.Variant != "token-delete-fails" && !other {
			// the order is over: a late validation request gets nothing
			ok, _ := s.validate(0)
			items = append(items, c16Item{Order: 0, Observed: ok})
		}
		s.emit(items, "finished")
	case "two":
		s.start(0)
		s.start(1)
		arr := s.await(2)
		if len(arr) < 2 || s.failed != "" {
			if s.failed == "" {
				s.failed = fmt.Sprintf("only %d of 2 orders reached validation", len(arr))
			}
			s.step(c16Step{Order: 0})
			s.emit(nil, "stuck")
			for _, a := range arr {
				a.reply <- mockca.Prob(500, "serverInternal", "scenario aborted")
			}
			break
		}
		byOrder := map[int]c16Arrival{}
		for _, a := range arr {
			byOrder[s.orderOf(a.v)] = a
		}
		for _, i := range s.presentOrder([]int{0, 1}) {
			s.step(c16Step{Order: i})
		}
		ok0, _ := s.validate(0)
		ok1, _ := s.validate(1)
		s.emit([]c16Item{{Order: 0, Observed: ok0}, {Order: 1, Observed: ok1}}, "both-validating")
		rejects, cancelled := false, false
		cst := c16Step{Clean: true, Order: 0}
		switch sc.Variant {
		case "first-rejected":
			rejects = true
			byOrder[0].reply <- mockca.Prob(403, "unauthorized", "the CA did not see the expected response")
		case "first-cancelled":
			cancelled, cst.Cancel = true, true
			s.calls[0].cancel()
			s.waitCall(0)
			byOrder[0].reply <- nil
		default:
			byOrder[0].reply <- nil
		}
		s.waitCall(0)
		s.step(cst)
		items := outcome(0, ok0, rejects, cancelled)
		if s.failed == "" {
			// the other order is still pending: it must still be answered, the finished one not
			again1, _ := s.validate(1)
			late0, _ := s.validate(0)
			items = append(items, c16Item{Order: 1, Observed: again1}, c16Item{Order: 0, Observed: late0})
			ok1 = again1
		}
		s.emit(items, "first-finished")
		byOrder[1].reply <- nil
		s.waitCall(1)
		s.step(c16Step{Clean: true, Order: 1})
		items = outcome(1, ok1, false, false)
		if s.failed == "" {
			late1, _ := s.validate(1)
			items = append(items, c16Item{Order: 1, Observed: late1})
		}
		s.emit(items, "finished")
	case "retry":
		// both challenge types enabled; the CA rejects the first one acmez tries, acmez orders again and
		// uses the other type (after a pause of one second)
		s.start(0)
		arr := s.await(1)
		if len(arr) < 1 || s.failed != "" {
			if s.failed == "" {
				s.failed = "the order did not reach validation"
			}
			s.step(c16Step{Order: 0})
			s.emit(nil, "stuck")
			break
		}
		i1 := s.orderOf(arr[0].v)
		i2 := 1 - i1
		s.step(c16Step{Order: i1})
		ok1, _ := s.validate(i1)
		s.emit([]c16Item{{Order: i1, Observed: ok1}}, "validating")
		arr[0].reply <- mockca.Prob(403, "unauthorized", "the CA did not see the expected response")
		arr2 := s.await(1)
		s.step(c16Step{Clean: true, Order: i1})
		if len(arr2) < 1 || s.failed != "" || s.orderOf(arr2[0].v) != i2 {
			// no second attempt with the other type: the order simply failed
			for _, a := range arr2 {
				a.reply <- mockca.Prob(403, "unauthorized", "unexpected second validation")
			}
			s.waitCall(0)
			s.emit([]c16Item{{Outcome: true, Order: i2, Validated: true, Observed: s.calls[0].err == nil}}, "no-retry")
			break
		}
		s.step(c16Step{Order: i2})
		ok2, _ := s.validate(i2)
		late1, _ := s.validate(i1)
		s.emit([]c16Item{{Order: i2, Observed: ok2}, {Order: i1, Observed: late1}}, "retry-validating")
		if ok2 {
			arr2[0].reply <- nil
		} else {
			arr2[0].reply <- mockca.Prob(403, "unauthorized", "validation failed")
		}
		s.waitCall(0)
		s.step(c16Step{Clean: true, Order: i2})
		it := c16Item{Outcome: true, Order: i2, Validated: ok2, Observed: s.calls[0].err == nil && s.calls[0].cert != nil}
		if s.calls[0].err != nil {
			it.IssueError = s.calls[0].err.Error()
		}
		late2, _ := s.validate(i2)
		s.emit([]c16Item{it, {Order: i2, Observed: late2}}, "finished")
	case "multi":
		s.start(0)
		arr := s.await(1)
		if len(arr) < 1 || s.failed != "" {
			if s.failed == "" {
				s.failed = "the order did not reach validation"
			}
			s.step(c16Step{Order: 0})
			s.emit(nil, "stuck")
			break
		}
		// both challenges were presented before the first one is validated; the second one's token
		// is known to the CA only
		s.learnFromCA()
		first := s.orderOf(arr[0].v)
		for _, i := range s.presentOrder([]int{0, 1}) {
			s.step(c16Step{Order: i})
		}
		ok0, _ := s.validate(0)
		ok1, _ := s.validate(1)
		s.emit([]c16Item{{Order: 0, Observed: ok0}, {Order: 1, Observed: ok1}}, "both-validating")
		arr[0].reply <- nil
		arr2 := s.await(1)
		if len(arr2) == 1 {
			arr2[0].reply <- nil
		}
		s.waitCall(0)
		// acmez polls (and cleans up) the authorizations in the order it presented them
		for _, i := range s.presentOrder([]int{0, 1}) {
			s.step(c16Step{Clean: true, Order: i})
		}
		_ = first
		s.emit(outcome(0, ok0 && ok1, false, false), "finished")
	}
	if s.failed == "" {
		for ci := range s.calls {
			if s.calls[ci].err == nil {
				x.issued++
			}
		}
	}
	s.discipline()
	return nil
}


// c16E2EIn builds the input of an end-to-end scenario.
func c16E2EIn(shape, kind, variant string, honour bool) c16In {
	in := c16In{Honour: honour, E2E: &c16E2E{Shape: shape, Kind: kind, Variant: variant}}
	if kind != "dns" {
		switch variant {
		case "bind-error":
			in.Addrs = []string{"invalid"}
		case "occupied-dumb", "occupied-answering":
			in.Addrs = []string{"occupied"}
		default:
			in.Addrs = []string{"free"}
		}
	}
	switch shape {
	case "retry":
		in.Addrs = []string{"free", "free"}
		in.Orders = []c16Order{{Kind: "http", Addr: 0, Ident: "a"}, {Kind: "tlsalpn", Addr: 1, Ident: "a"}}
	case "single":
		in.Orders = []c16Order{{Kind: kind, Ident: "a"}}
	default:
		in.Orders = []c16Order{{Kind: kind, Ident: "a"}, {Kind: kind, Ident: "b"}}
		if kind == "dns" { // example.com and *.example.com: one record name, two values
			in.Orders = []c16Order{{Kind: kind, Ident: "shared"}, {Kind: kind, Ident: "*.shared"}}
		}
	}
	return in
}
