//go:build !skip_c19_horizon

package main

import (
	"context"
	"encoding/json"
	"fmt"
	"math/rand"
	"os"
	"os/exec"
	"path/filepath"
	"regexp"
	"strings"
	"time"

	"verifharness/pkg/emit"
)

// Class "retry-horizon": doWithRetry with maxRetryDuration (a constant of 30 days in the library)
// shrunk to 100-200 ms, so that "final attempt; giving up" is reached. The library is not touched:
// the harness makes a scratch copy of $VERIF_REPO under the run's temp dir, turns the declaration
// `const maxRetryDuration = ...` into a `var` THERE (exactly one match of the expected text, or the
// tie is reported as broken), adds an in-package test that drives the real doWithRetry with the
// scripted functions, and runs it with `go test` as a separate process. The observations come back
// as JSON and are checked like those of the in-process retry cases.

var c19HorizonDecl = regexp.MustCompile(`(?m)^const maxRetryDuration = `)

type c19HorizonObs struct {
	c19RetryObs
	Stalled bool `json:"stalled"`
}

const c19HorizonTest = `package certmagic

import (
	"context"
	"encoding/json"
	"errors"
	"fmt"
	"io"
	"os"
	"sync"
	"testing"
	"time"

	"go.uber.org/zap"
)

type vStep struct {
	Out            string ` + "`json:\"out\"`" + `
	DurMs          int    ` + "`json:\"dur_ms,omitempty\"`" + `
	CancelAtMs     int    ` + "`json:\"cancel_at_ms,omitempty\"`" + `
	CancelAfterPct int    ` + "`json:\"cancel_after_pct,omitempty\"`" + `
}
type vPlan struct {
	TableMs   []int   ` + "`json:\"table_ms\"`" + `
	Steps     []vStep ` + "`json:\"steps\"`" + `
	PreCancel bool    ` + "`json:\"pre_cancel,omitempty\"`" + `
	HorizonMs int     ` + "`json:\"horizon_ms,omitempty\"`" + `
}
type vAtt struct {
	No    int   ` + "`json:\"attempt\"`" + `
	Start int64 ` + "`json:\"start_ns\"`" + `
	End   int64 ` + "`json:\"end_ns\"`" + `
	Out   int   ` + "`json:\"out\"`" + `
}
type vObs struct {
	Atts     []vAtt ` + "`json:\"attempts\"`" + `
	Result   int    ` + "`json:\"result\"`" + `
	Te       int64  ` + "`json:\"return_ns\"`" + `
	CancelNs int64  ` + "`json:\"cancel_ns\"`" + `
	Note     string ` + "`json:\"note,omitempty\"`" + `
	Stalled  bool   ` + "`json:\"stalled\"`" + `
}

var vOutCode = map[string]int{"ok": 0, "plain": 1, "deadline": 1, "os-deadline": 1, "eof": 1, "noretry": 2, "noretry-wrapped": 2, "canceled": 3, "ctx": 3}

func vErr(out string, ctx context.Context) error {
	switch out {
	case "ok":
		return nil
	case "plain":
		return errors.New("plain failure")
	case "deadline":
		return fmt.Errorf("order: talking to the CA: %w", context.DeadlineExceeded)
	case "os-deadline":
		return fmt.Errorf("order: read: %w", os.ErrDeadlineExceeded)
	case "eof":
		return fmt.Errorf("order: %w", io.ErrUnexpectedEOF)
	case "noretry":
		return ErrNoRetry{Err: errors.New("do not retry")}
	case "noretry-wrapped":
		return fmt.Errorf("obtain: %w", ErrNoRetry{Err: errors.New("do not retry")})
	case "canceled":
		return fmt.Errorf("order: %w", context.Canceled)
	case "ctx":
		<-ctx.Done()
		return fmt.Errorf("order: %w", ctx.Err())
	}
	return errors.New("?")
}

// heartbeat: largest gap between two wake-ups of a goroutine that sleeps 500 us at a time
type vBeat struct {
	mu   sync.Mutex
	gaps []struct{ at time.Time; d time.Duration }
	stop chan struct{}
}

func vStartBeat() *vBeat {
	b := &vBeat{stop: make(chan struct{})}
	go func() {
		last := time.Now()
		for {
			select {
			case <-b.stop:
				return
			default:
			}
			time.Sleep(500 * time.Microsecond)
			now := time.Now()
			if d := now.Sub(last); d > 3*time.Millisecond {
				b.mu.Lock()
				b.gaps = append(b.gaps, struct{ at time.Time; d time.Duration }{now, d})
				b.mu.Unlock()
			}
			last = now
		}
	}()
	return b
}

func (b *vBeat) maxGap(from, to time.Time) time.Duration {
	b.mu.Lock()
	defer b.mu.Unlock()
	var m time.Duration
	for _, g := range b.gaps {
		if !g.at.Before(from) && !g.at.Add(-g.d).After(to) && g.d > m {
			m = g.d
		}
	}
	return m
}

func vRun(p vPlan) vObs {
	ctx, cancel := context.WithCancel(context.Background())
	defer cancel()
	var mu sync.Mutex
	obs := vObs{CancelNs: -1}
	var t0 time.Time
	rel := func() int64 { return int64(time.Since(t0)) }
	doCancel := func() {
		mu.Lock()
		if obs.CancelNs < 0 {
			obs.CancelNs = rel()
		}
		mu.Unlock()
		cancel()
	}
	pauseAfter := func(k int) time.Duration {
		i := k
		if i > len(p.TableMs)-1 {
			i = len(p.TableMs) - 1
		}
		return time.Duration(p.TableMs[i]) * time.Millisecond
	}
	calls := 0
	f := func(ctx context.Context) error {
		start := rel()
		no := -1
		if a, ok := ctx.Value(AttemptsCtxKey).(*int); ok && a != nil {
			no = *a
		}
		k := calls
		calls++
		st := vStep{Out: "ok"}
		if k < len(p.Steps) {
			st = p.Steps[k]
		} else {
			mu.Lock()
			obs.Note = "more calls than scripted"
			mu.Unlock()
		}
		if st.CancelAtMs > 0 {
			time.AfterFunc(time.Duration(st.CancelAtMs)*time.Millisecond, doCancel)
		}
		time.Sleep(time.Duration(st.DurMs) * time.Millisecond)
		err := vErr(st.Out, ctx)
		if st.CancelAfterPct > 0 {
			time.AfterFunc(pauseAfter(k)*time.Duration(st.CancelAfterPct)/100, doCancel)
		}
		end := rel()
		mu.Lock()
		obs.Atts = append(obs.Atts, vAtt{No: no, Start: start, End: end, Out: vOutCode[st.Out]})
		mu.Unlock()
		return err
	}
	if p.PreCancel {
		cancel()
		obs.CancelNs = 0
	}
	t0 = time.Now()
	var err error
	panicked := false
	func() {
		defer func() {
			if r := recover(); r != nil {
				panicked = true
				err = fmt.Errorf("panic: %v", r)
			}
		}()
		err = doWithRetry(ctx, zap.NewNop(), f)
	}()
	te := rel()
	mu.Lock()
	defer mu.Unlock()
	obs.Te = te
	var nr ErrNoRetry
	switch {
	case panicked:
		obs.Result = 8
		obs.Note = err.Error()
	case err == nil:
		obs.Result = 0
	case errors.Is(err, context.Canceled):
		if n := len(obs.Atts); n > 0 && obs.Atts[n-1].Out == 3 {
			obs.Result = 1
		} else {
			obs.Result = 3
		}
	case errors.As(err, &nr):
		obs.Result = 2
	default:
		obs.Result = 7
	}
	return obs
}

func TestVerifC19Horizon(t *testing.T) {
	in, err := os.ReadFile(os.Getenv("VERIF_C19_PLANS"))
	if err != nil {
		t.Fatal(err)
	}
	var batches [][]vPlan
	if err := json.Unmarshal(in, &batches); err != nil {
		t.Fatal(err)
	}
	beat := vStartBeat()
	defer close(beat.stop)
	out := make([][]vObs, len(batches))
	for bi, batch := range batches {
		if len(batch) == 0 {
			continue
		}
		// the two package variables are global: one batch per (table, horizon)
		var iv []time.Duration
		for _, ms := range batch[0].TableMs {
			iv = append(iv, time.Duration(ms)*time.Millisecond)
		}
		oldIv, oldMax := retryIntervals, maxRetryDuration
		retryIntervals, maxRetryDuration = iv, time.Duration(batch[0].HorizonMs)*time.Millisecond
		out[bi] = make([]vObs, len(batch))
		sem := make(chan struct{}, 12)
		var wg sync.WaitGroup
		for i := range batch {
			wg.Add(1)
			sem <- struct{}{}
			go func(i int) {
				defer wg.Done()
				defer func() { <-sem }()
				for try := 0; try < 3; try++ {
					a := time.Now()
					o := vRun(batch[i])
					o.Stalled = beat.maxGap(a, time.Now()) > 10*time.Millisecond
					out[bi][i] = o
					if !o.Stalled {
						break
					}
				}
			}(i)
		}
		wg.Wait()
		retryIntervals, maxRetryDuration = oldIv, oldMax
	}
	b, _ := json.Marshal(out)
	if err := os.WriteFile(os.Getenv("VERIF_C19_OUT"), b, 0o644); err != nil {
		t.Fatal(err)
	}
}
`

// c19HorizonPlans: one batch per (table, horizon).
func c19HorizonPlans(tier string, r *rand.Rand) [][]c19RetryPlan {
	hz := []struct {
		table   []int
		horizon int
	}{{[]int{30}, 100}, {[]int{20, 40}, 130}}
	if tier == "thorough" {
		hz = append(hz, struct {
			table   []int
			horizon int
		}{[]int{25, 25, 50}, 200})
	}
	var batches [][]c19RetryPlan
	for _, h := range hz {
		var batch []c19RetryPlan
		mk := func(steps ...c19Step) {
			batch = append(batch, c19RetryPlan{Kind: "direct", TableMs: h.table, HorizonMs: h.horizon, Steps: steps})
		}
		pl := func(dur int) c19Step { return c19Step{Out: c19PlainKinds[r.Intn(len(c19PlainKinds))], DurMs: dur} }
		many := func(dur int) []c19Step { // more plain failures than fit into the horizon
			var s []c19Step
			for i := 0; i < 12; i++ {
				s = append(s, pl(dur))
			}
			return s
		}
		// every attempt fails: the loop gives up at the first attempt that ends after the horizon
		mk(many(4)...)
		mk(many(9)...)
		mk(many(1)...)
		// one long failing attempt that ends after the horizon; a long attempt that succeeds after it
		mk(pl(3), pl(h.horizon+40), c19Step{Out: "ok"})
		mk(pl(3), c19Step{Out: "ok", DurMs: h.horizon + 40})
		mk(pl(h.horizon+25), c19Step{Out: "ok"})
		// success / non-retryable error / cancellation before the horizon
		mk(pl(2), pl(2), c19Step{Out: "ok", DurMs: 2})
		mk(pl(2), c19Step{Out: "noretry", DurMs: 2})
		mk(pl(2), c19Step{Out: "noretry", DurMs: h.horizon + 30})
		s := many(3)
		s[1].CancelAfterPct = 40
		mk(s...)
		for i := 0; i < 4; i++ {
			mk(many(r.Intn(15))...)
		}
		batches = append(batches, batch)
	}
	return batches
}

// c19HorizonRun runs the batches in a scratch copy of the repository. ran == false with an empty
// broken: the go tool is not available (no verdict). broken != "": the tie could not be
// established (declaration not found, scratch copy does not build, test failed) - reported.
func c19HorizonRun(batches [][]c19RetryPlan) (res [][]c19HorizonObs, ran bool, broken string) {
	goBin, err := exec.LookPath("go")
	if err != nil {
		return nil, false, ""
	}
	tmp, cleanup, err := c1719ScratchRepo("c19horizon")
	if err != nil {
		return nil, false, "scratch copy of the repository: " + err.Error()
	}
	defer cleanup()
	src, err := os.ReadFile(filepath.Join(tmp, "async.go"))
	if err != nil {
		return nil, false, "async.go: " + err.Error()
	}
	if n := len(c19HorizonDecl.FindAllIndex(src, -1)); n != 1 {
		return nil, false, fmt.Sprintf("async.go: expected exactly one declaration `const maxRetryDuration = ...`, found %d", n)
	}
	edited := c19HorizonDecl.ReplaceAll(src, []byte("var maxRetryDuration = "))
	if err := os.WriteFile(filepath.Join(tmp, "async.go"), edited, 0o644); err != nil {
		return nil, false, err.Error()
	}
	// the hook file refers to the constant in a constant declaration: not part of the scratch build
	// (the test is built without the verif tag)
	if err := os.WriteFile(filepath.Join(tmp, "zz_verif_c19_horizon_test.go"), []byte(c19HorizonTest), 0o644); err != nil {
		return nil, false, err.Error()
	}
	pj, _ := json.Marshal(batches)
	plansPath, outPath := filepath.Join(tmp, "plans.json"), filepath.Join(tmp, "obs.json")
	if err := os.WriteFile(plansPath, pj, 0o644); err != nil {
		return nil, false, err.Error()
	}
	ctx, cancel := context.WithTimeout(context.Background(), 240*time.Second)
	defer cancel()
	cmd := exec.CommandContext(ctx, goBin, "test", "-vet=off", "-count=1", "-run", "TestVerifC19Horizon", ".")
	cmd.Dir = tmp
	cmd.Env = append(c1719GoEnv(false), "VERIF_C19_PLANS="+plansPath, "VERIF_C19_OUT="+outPath)
	out, err := cmd.CombinedOutput()
	if err != nil {
		s := string(out)
		if len(s) > 600 {
			s = s[len(s)-600:]
		}
		return nil, false, "go test in the scratch copy failed: " + strings.TrimSpace(s)
	}
	b, err := os.ReadFile(outPath)
	if err != nil {
		return nil, false, "no observations: " + err.Error()
	}
	if err := json.Unmarshal(b, &res); err != nil {
		return nil, false, "observations: " + err.Error()
	}
	if len(res) != len(batches) {
		return nil, false, "observations: wrong number of batches"
	}
	for i := range res {
		if len(res[i]) != len(batches[i]) {
			return nil, false, "observations: wrong number of cases in a batch"
		}
	}
	return res, true, ""
}

// c19Horizon runs the class and emits its cases through emitRetry; a tie that cannot be
// established is an oracle check that fails (the check reports it), not silence.
func c19Horizon(w *emit.Writer, batches [][]c19RetryPlan, emitRetry func(c19RetryPlan, c19RetryObs)) {
	t0 := time.Now()
	res, ran, broken := c19HorizonRun(batches)
	name := "retry-horizon: scratch copy of the repository with `const maxRetryDuration` turned into a variable builds and its in-package test runs"
	switch {
	case broken != "":
		w.Meta.Oracles = append(w.Meta.Oracles, emit.OracleCheck{Name: name, OK: false, Detail: broken})
		return
	case !ran:
		w.Hist("retry_horizon_unavailable")
		w.Meta.Notes = append(w.Meta.Notes, "retry-horizon not run: go tool not found")
		return
	}
	w.Meta.Oracles = append(w.Meta.Oracles, emit.OracleCheck{Name: name, OK: true, Detail: fmt.Sprintf("%.1f s", time.Since(t0).Seconds())})
	for bi := range batches {
		for i, p := range batches[bi] {
			if res[bi][i].Stalled {
				w.Hist("skipped_stalled")
				continue
			}
			emitRetry(p, res[bi][i].c19RetryObs)
		}
	}
}
