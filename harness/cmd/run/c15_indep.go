//go:build !skip_c15_indep

package main

// Independent computations (standard library only) of values that certmagic computes itself and
// that the C15 / C16 harnesses need as ground truth: the memory / storage key of a challenge
// (solvers.go challengeKey: reverse-mapping name for an IP identifier under TLS-ALPN-01), the issuer
// key of a CA URL (acmeissuer.go issuerKey), KeyBuilder.Safe and the challenge token key
// (solvers.go challengeTokensKey). The code's own answers (hooks VerifChallengeKey,
// VerifChallengeTokensKey, IssuerKey()) are only RECORDED and compared with these as oracle checks;
// nothing that is fed to the model or used to aim a request comes from the code under test.

import (
	"crypto/tls"
	"fmt"
	"net"
	"net/url"
	"strings"
	"time"
	"unicode"

	"github.com/caddyserver/certmagic"
	"github.com/mholt/acmez/v3/acme"
	"github.com/miekg/dns"

	"verifharness/pkg/emit"
)

// c15IPBytes is the address in its shortest binary form (4 bytes for IPv4 and IPv4-mapped IPv6,
// else 16), nil if s is not an IP literal. The model (Challenge.Model.rev_name) builds the
// reverse-mapping name from these bytes.
func c15IPBytes(s string) []byte {
	ip := net.ParseIP(s)
	if ip == nil {
		return nil
	}
	if v4 := ip.To4(); v4 != nil {
		return []byte(v4)
	}
	return []byte(ip.To16())
}

// c15RevName is the reverse-mapping name (RFC 1035 §3.5, RFC 3596 §2.5; what RFC 8738 §6 puts
// in the SNI of a TLS-ALPN-01 validation of an IP identifier), without the trailing dot.
func c15RevName(s string) (string, bool) {
	b := c15IPBytes(s)
	if b == nil {
		return "", false
	}
	var parts []string
	if len(b) == 4 {
		for i := 3; i >= 0; i-- {
			parts = append(parts, fmt.Sprintf("%d", b[i]))
		}
		return strings.Join(parts, ".") + ".in-addr.arpa", true
	}
	for i := 15; i >= 0; i-- {
		parts = append(parts, fmt.Sprintf("%x", b[i]&15), fmt.Sprintf("%x", b[i]>>4))
	}
	return strings.Join(parts, ".") + ".ip6.arpa", true
}

// c15ChalKey: the key under which a challenge is remembered and stored.
func c15ChalKey(typ, idType, ident string) string {
	if typ == "tls-alpn-01" && idType == "ip" {
		if r, ok := c15RevName(ident); ok {
			return r
		}
	}
	return ident
}

func c15KeyOf(c acme.Challenge) string {
	return c15ChalKey(c.Type, c.Identifier.Type, c.Identifier.Value)
}

// c15Safe: KeyBuilder.Safe, written without regexp / Replacer.
func c15Safe(s string) string {
	s = strings.TrimFunc(strings.Map(unicode.ToLower, s), unicode.IsSpace)
	var b strings.Builder
	rs := []rune(s)
	for i := 0; i < len(rs); i++ {
		switch r := rs[i]; {
		case r == ' ':
			b.WriteString("_")
		case r == '+':
			b.WriteString("_plus_")
		case r == '*':
			b.WriteString("wildcard_")
		case r == ':':
			b.WriteString("-")
		case r == '.' && i+1 < len(rs) && rs[i+1] == '.':
			i++ // ".." removed (left to right, non-overlapping)
		default:
			b.WriteRune(r)
		}
	}
	var o strings.Builder
	for _, r := range b.String() {
		if r == '_' || r == '@' || r == '.' || r == '-' || (r >= '0' && r <= '9') || (r >= 'a' && r <= 'z') || (r >= 'A' && r <= 'Z') {
			o.WriteRune(r)
		}
	}
	out := o.String()
	for strings.Contains(out, "..") {
		// strings.ReplaceAll is one left-to-right pass; "..." -> "." and "...." -> "": a single pass
		// never leaves ".." behind, so the loop runs once
		out = strings.ReplaceAll(out, "..", "")
	}
	return out
}

// c15IssuerKeyOf: host of the CA URL, then "-" and the path with its separators turned into
// hyphens (outer hyphens trimmed).
func c15IssuerKeyOf(ca string) string {
	u, err := url.Parse(ca)
	if err != nil {
		return ca
	}
	key := u.Host
	p := strings.Trim(strings.Map(func(r rune) rune {
		if r == '/' || r == '\\' {
			return '-'
		}
		return r
	}, u.Path), "-")
	if p != "" {
		key += "-" + p
	}
	return key
}

// c15TokensKey: acme/<safe issuer key>/challenge_tokens/<safe name>.json
func c15TokensKey(issuerKey, name string) string {
	return "acme/" + c15Safe(issuerKey) + "/challenge_tokens/" + c15Safe(name) + ".json"
}

// c15OwnAnswers compares the code's own answers with the independent ones (recorded as oracle
// checks: a difference is reported, and the cases — which use the independent values — show where
// the behaviour differs).
type c15OwnAnswers struct {
	n   int
	bad []string
}

func (o *c15OwnAnswers) chal(c acme.Challenge) {
	o.n++
	if got, want := certmagic.VerifChallengeKey(c), c15KeyOf(c); got != want {
		o.bad = append(o.bad, fmt.Sprintf("challengeKey(%s,%s %q) = %q, independently %q", c.Type, c.Identifier.Type, c.Identifier.Value, got, want))
	}
	if c.Identifier.Type == "ip" {
		r, err := dns.ReverseAddr(c.Identifier.Value)
		want, ok := c15RevName(c.Identifier.Value)
		if (err == nil) != ok || (ok && r != want+".") {
			o.bad = append(o.bad, fmt.Sprintf("dns.ReverseAddr(%q) = %q, %v; independently %q", c.Identifier.Value, r, err, want))
		}
	}
}

func (o *c15OwnAnswers) tokensKey(issuerKey, name string) {
	o.n++
	if got, want := certmagic.VerifChallengeTokensKey(issuerKey, name), c15TokensKey(issuerKey, name); got != want {
		o.bad = append(o.bad, fmt.Sprintf("challengeTokensKey(%q,%q) = %q, independently %q", issuerKey, name, got, want))
	}
}

func (o *c15OwnAnswers) issuerKey(iss *certmagic.ACMEIssuer, ca string) {
	o.n++
	if got, want := iss.IssuerKey(), c15IssuerKeyOf(ca); got != want {
		o.bad = append(o.bad, fmt.Sprintf("IssuerKey() of %q = %q, independently %q", ca, got, want))
	}
}

func (o *c15OwnAnswers) check() emit.OracleCheck {
	d := strings.Join(o.bad, "; ")
	if len(d) > 1500 {
		d = d[:1500]
	}
	return emit.OracleCheck{Name: fmt.Sprintf("the code's own challengeKey / challengeTokensKey / IssuerKey answers equal the independently computed ones (%d comparisons; recorded only, the cases use the independent values)", o.n), OK: len(o.bad) == 0, Detail: d}
}

// tlsListener serves TLS handshakes on ln with cfg's GetCertificate (as a server using certmagic
// does); it returns a function that stops it.
func tlsListener(ln net.Listener, cfg *certmagic.Config) func() {
	tc := cfg.TLSConfig()
	tc.NextProtos = append([]string{"h2", "http/1.1"}, tc.NextProtos...) // as certmagic.TLS does for an HTTPS server
	done := make(chan struct{})
	go func() {
		for {
			c, err := ln.Accept()
			if err != nil {
				close(done)
				return
			}
			go func() {
				defer c.Close()
				tconn := tls.Server(c, tc)
				tconn.SetDeadline(time.Now().Add(10 * time.Second))
				tconn.Handshake()
				tconn.Close()
			}()
		}
	}()
	return func() { ln.Close(); <-done }
}

