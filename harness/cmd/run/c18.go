//go:build !skip_c18

package main

// C18 — storage cleaning removes only expired material and nothing else.
//
// Drives the REAL certmagic.CleanStorage on the in-memory double (pkg/doubles MemStorage) and on
// a temp-dir FileStorage, through a logging wrapper that records every Storage/Locker call
// (and injects faults / cancels the context at a chosen call index). Storage contents are
// generated from real certificates (doubles.CA, chosen NotAfter), real OCSP responses
// (ocsp.CreateResponse), last_clean.json states, foreign files and unrelated keys. One case =
// storage before (every value classified by an independent reading), the runs (options, fault
// plan, clock bracket, result) in lock order, the merged call trace, storage after.

import (
	"bytes"
	"context"
	"crypto"
	"crypto/ecdsa"
	"crypto/elliptic"
	crand "crypto/rand"
	"crypto/sha256"
	"crypto/x509"
	"encoding/json"
	"encoding/pem"
	"errors"
	"fmt"
	"io/fs"
	"crypto/x509/pkix"
	"math/big"
	"math/rand"
	"os"
	"path/filepath"
	"sort"
	"strings"
	"sync"
	"time"

	"github.com/caddyserver/certmagic"
	"go.uber.org/zap"
	"golang.org/x/crypto/ocsp"

	"verifharness/pkg/doubles"
	"verifharness/pkg/emit"
)

func init() { register("C18", runC18) }

// ---------------------------------------------------------------- case description (replayable)

type c18Item struct {
	Key  string `json:"key"`
	Kind string `json:"kind"` // dir | cert | bundle | staple | staple0 | lastclean | lastclean_notls | raw
	// bundle: a .crt file with several PEM blocks. Text = layout: "leaf+int" (leaf, then an intermediate), "int+leaf"
	// (order swapped), "leaf+int+int", "leaf+key" (a PRIVATE KEY block after the leaf), "text+leaf" (text before the
	// first block), "key+leaf" (a non-certificate block first). Off = NotAfter-now of the leaf, Off2 = of the
	// intermediate(s). pem.Decode yields the FIRST block: that one decides (certmagic stores the leaf first)
	Off2 int64 `json:"off2,omitempty"`
	Off  int64  `json:"off,omitempty"`  // cert: NotAfter-now (s); staple: NextUpdate-now (s); lastclean: Timestamp-now (s)
	Text string `json:"text,omitempty"` // raw: contents; lastclean: instance id
	Why  string `json:"why,omitempty"`  // generator's label (histogram only)
}

type c18Run struct {
	Interval int64  `json:"interval_ns"`
	OCSP     bool   `json:"ocsp"`
	Certs    bool   `json:"certs"`
	Grace    int64  `json:"grace_ns"`
	Inst     string `json:"inst"`
	Faults   []int  `json:"faults,omitempty"`
	// EFaults: calls that TAKE EFFECT and then report an error (a time-out after the back-end did the work);
	// meaningful for Delete and Store, ignored on other calls
	EFaults []int `json:"efaults,omitempty"`
	Cancel  int   `json:"cancel"` // -1 = never
	// Fops: what ANOTHER actor (no storage_clean lock) does to the storage just before call number At
	// of this run (0 = Lock); Why/Race are the generator's labels
	Fops []c18Fop `json:"fops,omitempty"`
	// PFaults: Delete calls that take effect IN PART and then report an error (os.RemoveAll that removes some of
	// what the key covers, then fails): the wrapper removes everything below the key except the last file (in key
	// order) and the folders leading to it; a key with nothing below it is removed entirely
	PFaults []int `json:"pfaults,omitempty"`
	// Kill: the cleaner's process dies when this call begins (-1/0 = never): no further call has any effect, the
	// lock is not released; afterwards the harness lets the lock go stale (FileStorage: lock file back-dated)
	Kill int `json:"kill,omitempty"`
}

type c18Fop struct {
	At   int     `json:"at"`
	Del  bool    `json:"del,omitempty"`
	Item c18Item `json:"item"` // Store: key + contents; Delete: key only
}

type c18Spec struct {
	Backend    string    `json:"backend"` // mem | fs
	Items      []c18Item `json:"items"`
	Runs       []c18Run  `json:"runs"`
	Concurrent bool      `json:"concurrent,omitempty"` // runs start together (first one is held inside the lock until the others wait)
	SleepMs    int       `json:"sleep_ms,omitempty"`   // pause between sequential runs
	// AlignPhase: wait until the wall clock is 0.30-0.45 s into a second before materialising, so
	// that thresholds on whole seconds (x509 NotAfter, expiresAt's +1 s) are >= 0.3 s away on both sides
	AlignPhase bool `json:"align_phase,omitempty"`
	// PreLock (FileStorage): state of locks/storage_clean.lock before the first run. "stale": left by a dead
	// holder an hour ago (Lock removes it and proceeds); "live": a live holder keeps it (Lock waits until the
	// context expires after LockTimeoutMs and CleanStorage returns without touching anything)
	PreLock       string `json:"pre_lock,omitempty"`
	LockTimeoutMs int    `json:"lock_timeout_ms,omitempty"`
}

// ---------------------------------------------------------------- logging wrapper

type c18Event struct {
	Tid  int
	Kind int // 0 Lock 1 Unlock 2 Load 3 List 4 Stat 5 Delete 6 Store
	Key  string
	OK   bool
}

type c18Trace struct {
	mu  sync.Mutex
	evs []c18Event
}

func (t *c18Trace) add(e c18Event) int {
	t.mu.Lock()
	defer t.mu.Unlock()
	t.evs = append(t.evs, e)
	return len(t.evs) - 1
}
func (t *c18Trace) setOK(i int, ok bool) {
	t.mu.Lock()
	t.evs[i].OK = ok
	t.mu.Unlock()
}

// c18Wrap is a certmagic.Storage that forwards to inner, logs every call, fails the calls whose
// index (per wrapper) is in faults, and cancels the caller's context when call number cancelAt
// begins. The inner storage always sees a live context, so cancellation is visible to
// CleanStorage only through its own ctx.Done() checks (same on both back-ends).
type c18Wrap struct {
	inner    certmagic.Storage
	tid      int
	tr       *c18Trace
	faults   map[int]bool
	efaults  map[int]bool
	cancelAt int
	cancel   context.CancelFunc
	n        int
	tLock    time.Time // when Lock returned
	tUnlock  time.Time // when Unlock was called
	// gate: called (once) inside the lock, before call number gateAt
	gateAt int
	gate   func()
	// announce: called just before Lock is forwarded
	announce func()
	// foreign: called at the beginning of call number idx (another actor acts on the back-end)
	foreign  func(idx int)
	inUnlock bool
	// partial Deletes: partial(key) removes part of what key covers on the back-end and returns the keys it kept
	pfaults map[int]bool
	partial func(key string) []string
	kept    map[int][]string
	// death of the process
	killAt      int
	dead        bool
	lockTimeout time.Duration
}

type c18KilledPanic struct{}

var c18ErrInjected = errors.New("injected storage fault")

func (w *c18Wrap) String() string { return fmt.Sprintf("c18wrap:%d", w.tid) }

func (w *c18Wrap) begin() (idx int, fault bool) {
	if w.dead {
		// only reached from CleanStorage's deferred Unlock while the kill's panic unwinds: a dead process does nothing
		return -1, true
	}
	idx = w.n
	w.n++
	if w.killAt > 0 && idx == w.killAt {
		w.dead = true
		panic(c18KilledPanic{})
	}
	if idx == w.cancelAt && w.cancel != nil {
		w.cancel()
	}
	if w.gate != nil && idx == w.gateAt {
		w.gate()
	}
	if w.foreign != nil && idx > 0 && !w.inUnlock { // other actors act between the cleaner's calls inside the lock
		w.foreign(idx)
	}
	return idx, w.faults[idx]
}

func c18Live(ctx context.Context) context.Context { return context.WithoutCancel(ctx) }

func (w *c18Wrap) Lock(ctx context.Context, name string) error {
	_, fault := w.begin()
	if fault {
		w.tr.add(c18Event{w.tid, 0, name, false})
		return c18ErrInjected
	}
	if w.announce != nil {
		w.announce()
	}
	lctx := c18Live(ctx)
	if w.lockTimeout > 0 {
		var cancel context.CancelFunc
		lctx, cancel = context.WithTimeout(lctx, w.lockTimeout)
		defer cancel()
	}
	err := w.inner.Lock(lctx, name)
	w.tLock = time.Now()
	w.tr.add(c18Event{w.tid, 0, name, err == nil})
	return err
}

func (w *c18Wrap) Unlock(ctx context.Context, name string) error {
	if w.dead {
		return c18ErrInjected
	}
	w.inUnlock = true
	_, fault := w.begin()
	w.tUnlock = time.Now()
	i := w.tr.add(c18Event{w.tid, 1, name, !fault})
	err := w.inner.Unlock(c18Live(ctx), name)
	if fault {
		return c18ErrInjected
	}
	if err != nil {
		w.tr.setOK(i, false)
	}
	return err
}

func (w *c18Wrap) Load(ctx context.Context, key string) ([]byte, error) {
	_, fault := w.begin()
	if fault {
		w.tr.add(c18Event{w.tid, 2, key, false})
		return nil, c18ErrInjected
	}
	b, err := w.inner.Load(c18Live(ctx), key)
	w.tr.add(c18Event{w.tid, 2, key, err == nil})
	return b, err
}

func (w *c18Wrap) List(ctx context.Context, prefix string, recursive bool) ([]string, error) {
	_, fault := w.begin()
	kind := 3 // a recursive listing is recorded as a List too: the model (non-recursive) then disagrees on what follows
	if fault {
		w.tr.add(c18Event{w.tid, kind, prefix, false})
		return nil, c18ErrInjected
	}
	l, err := w.inner.List(c18Live(ctx), prefix, recursive)
	w.tr.add(c18Event{w.tid, kind, prefix, err == nil})
	return l, err
}

func (w *c18Wrap) Stat(ctx context.Context, key string) (certmagic.KeyInfo, error) {
	_, fault := w.begin()
	if fault {
		w.tr.add(c18Event{w.tid, 4, key, false})
		return certmagic.KeyInfo{}, c18ErrInjected
	}
	ki, err := w.inner.Stat(c18Live(ctx), key)
	w.tr.add(c18Event{w.tid, 4, key, err == nil})
	return ki, err
}

func (w *c18Wrap) Delete(ctx context.Context, key string) error {
	idx, fault := w.begin()
	if fault {
		w.tr.add(c18Event{w.tid, 5, key, false})
		return c18ErrInjected
	}
	if w.pfaults[idx] && w.partial != nil {
		w.kept[idx] = w.partial(key)
		w.tr.add(c18Event{w.tid, 5, key, false})
		return c18ErrInjected
	}
	if w.efaults[idx] {
		w.inner.Delete(c18Live(ctx), key)
		w.tr.add(c18Event{w.tid, 5, key, false})
		return c18ErrInjected
	}
	err := w.inner.Delete(c18Live(ctx), key)
	w.tr.add(c18Event{w.tid, 5, key, err == nil})
	return err
}

func (w *c18Wrap) Store(ctx context.Context, key string, value []byte) error {
	idx, fault := w.begin()
	if fault {
		w.tr.add(c18Event{w.tid, 6, key, false})
		return c18ErrInjected
	}
	if w.efaults[idx] {
		err := w.inner.Store(c18Live(ctx), key, value)
		w.tr.add(c18Event{w.tid, 6, key, false})
		if err != nil {
			return err
		}
		return c18ErrInjected
	}
	err := w.inner.Store(c18Live(ctx), key, value)
	w.tr.add(c18Event{w.tid, 6, key, err == nil})
	return err
}

func (w *c18Wrap) Exists(ctx context.Context, key string) bool {
	w.begin()
	w.tr.add(c18Event{w.tid, 7, key, true}) // CleanStorage never calls Exists: unknown kind => decode error, reported
	return w.inner.Exists(c18Live(ctx), key)
}

// ---------------------------------------------------------------- material

type c18Mat struct {
	ca     *doubles.CA
	pub    crypto.PublicKey
	keyPEM []byte
}

func c18NewMat() *c18Mat {
	k, err := ecdsa.GenerateKey(elliptic.P256(), crand.Reader)
	if err != nil {
		panic(err)
	}
	der, err := x509.MarshalECPrivateKey(k) // standard library only: nothing of the code under test shapes the material
	if err != nil {
		panic(err)
	}
	kp := pem.EncodeToMemory(&pem.Block{Type: "EC PRIVATE KEY", Bytes: der})
	return &c18Mat{ca: doubles.NewCA("C18 harness CA"), pub: &k.PublicKey, keyPEM: kp}
}

func (m *c18Mat) cert(name string, notAfter time.Time) []byte {
	return m.certNB(name, notAfter.Add(-90*24*time.Hour), notAfter)
}

func (m *c18Mat) certNB(name string, nb, notAfter time.Time) []byte {
	chain, _, _, err := m.ca.Leaf(doubles.LeafOpts{Names: []string{name}, NotBefore: nb, NotAfter: notAfter, Pub: m.pub})
	if err != nil {
		panic(err)
	}
	return chain
}

// interm makes an intermediate-like CA certificate with the given NotAfter (signed by the harness CA)
func (m *c18Mat) interm(notAfter time.Time) []byte {
	tpl := &x509.Certificate{SerialNumber: big.NewInt(time.Now().UnixNano()), Subject: pkix.Name{CommonName: "C18 old intermediate"},
		NotBefore: notAfter.Add(-5 * 365 * 24 * time.Hour), NotAfter: notAfter, IsCA: true, BasicConstraintsValid: true,
		KeyUsage: x509.KeyUsageCertSign}
	der, err := x509.CreateCertificate(crand.Reader, tpl, m.ca.Cert, m.pub, m.ca.Key)
	if err != nil {
		panic(err)
	}
	return pem.EncodeToMemory(&pem.Block{Type: "CERTIFICATE", Bytes: der})
}

// leafOnly is the leaf's PEM block alone (doubles.CA.Leaf appends the CA certificate)
func (m *c18Mat) leafOnly(name string, notAfter time.Time) []byte {
	chain := m.cert(name, notAfter)
	blk, _ := pem.Decode(chain)
	return pem.EncodeToMemory(blk)
}

func (m *c18Mat) bundle(it c18Item, now time.Time) []byte {
	leaf := m.leafOnly(c18SiteName(it.Key), now.Add(time.Duration(it.Off)*time.Second))
	in := m.interm(now.Add(time.Duration(it.Off2) * time.Second))
	keyBlk := pem.EncodeToMemory(&pem.Block{Type: "PRIVATE KEY", Bytes: []byte("not really a key")})
	switch it.Text {
	case "leaf+int":
		return append(leaf, in...)
	case "int+leaf":
		return append(in, leaf...)
	case "leaf+int+int":
		return append(append(leaf, in...), m.interm(now.Add(time.Duration(it.Off2-86400)*time.Second))...)
	case "leaf+key":
		return append(append(leaf, keyBlk...), []byte("trailing text\n")...)
	case "text+leaf":
		return append([]byte("Bag Attributes\n    friendlyName: exported\n"), append(leaf, in...)...)
	case "key+leaf":
		return append(keyBlk, leaf...)
	}
	panic("unknown bundle layout " + it.Text)
}

func (m *c18Mat) staple(nextUpdate time.Time, withNext bool) []byte { return m.stapleV(nextUpdate, withNext, "") }

// stapleV: variant = what else the response says; only NextUpdate decides whether a staple is stale
// ("revoked", "unknown": certificate status; "recent", "future_this": ThisUpdate an hour ago / in an hour instead of
// 500 days ago; "withcert": the responder's certificate is embedded)
func (m *c18Mat) stapleV(nextUpdate time.Time, withNext bool, variant string) []byte {
	tpl := ocsp.Response{Status: ocsp.Good, SerialNumber: big.NewInt(4242), ThisUpdate: time.Now().Add(-500 * 24 * time.Hour)}
	switch variant {
	case "revoked":
		tpl.Status, tpl.RevokedAt, tpl.RevocationReason = ocsp.Revoked, time.Now().Add(-24*time.Hour), ocsp.KeyCompromise
	case "unknown":
		tpl.Status = ocsp.Unknown
	case "recent":
		tpl.ThisUpdate = time.Now().Add(-time.Hour)
	case "future_this":
		tpl.ThisUpdate = time.Now().Add(time.Hour)
	case "withcert":
		tpl.Certificate = m.ca.Cert
	}
	if withNext {
		tpl.NextUpdate = nextUpdate
	}
	der, err := ocsp.CreateResponse(m.ca.Cert, m.ca.Cert, tpl, m.ca.Key)
	if err != nil {
		panic(err)
	}
	return der
}

func c18SiteName(key string) string {
	parts := strings.Split(key, "/")
	if len(parts) >= 3 {
		n := strings.ReplaceAll(parts[2], "wildcard_", "*")
		if n != "" {
			return n
		}
	}
	return "x.example"
}

// bytesOf materialises an item relative to the instant now.
func (m *c18Mat) bytesOf(it c18Item, now time.Time) []byte {
	switch it.Kind {
	case "cert":
		if it.Off2 != 0 { // NotBefore chosen: a certificate that is not valid yet, or a very long-lived one
			return m.certNB(c18SiteName(it.Key), now.Add(time.Duration(it.Off2)*time.Second), now.Add(time.Duration(it.Off)*time.Second))
		}
		return m.cert(c18SiteName(it.Key), now.Add(time.Duration(it.Off)*time.Second))
	case "bundle":
		return m.bundle(it, now)
	case "staple":
		return m.stapleV(now.Add(time.Duration(it.Off)*time.Second), true, it.Text)
	case "staple0":
		return m.staple(time.Time{}, false)
	case "lastclean":
		b, _ := json.Marshal(map[string]any{"tls": map[string]any{"timestamp": now.Add(time.Duration(it.Off) * time.Second), "instance_id": it.Text}})
		return b
	case "lastclean_multi": // further entries beside "tls" (Off2 = their time stamp): only "tls" counts
		b, _ := json.Marshal(map[string]any{
			"tls":     map[string]any{"timestamp": now.Add(time.Duration(it.Off) * time.Second), "instance_id": it.Text},
			"storage": map[string]any{"timestamp": now.Add(time.Duration(it.Off2) * time.Second), "instance_id": "someone-else"},
			"aaa":     map[string]any{"timestamp": now.Add(time.Duration(it.Off2) * time.Second)}})
		return b
	case "lastclean_notls":
		return []byte(`{"other":{"timestamp":"2020-01-01T00:00:00Z"}}`)
	case "raw":
		switch it.Text {
		case "@key":
			return m.keyPEM
		case "@wrongpem":
			return pem.EncodeToMemory(&pem.Block{Type: "PRIVATE KEY", Bytes: []byte("not a certificate")})
		case "@badder":
			return pem.EncodeToMemory(&pem.Block{Type: "CERTIFICATE", Bytes: []byte{0x30, 0x03, 0x02, 0x01, 0x01}})
		case "@truncstaple":
			s := m.staple(now.Add(1000*time.Hour), true)
			return s[:len(s)/2]
		case "@capem":
			return m.ca.CertPEM
		}
		return []byte(it.Text)
	}
	panic("unknown item kind " + it.Kind)
}

// ---------------------------------------------------------------- independent reading of values

type c18Cls struct {
	Cert    *big.Int // NotAfter, Unix ns
	Staple  *big.Int // NextUpdate, Unix ns
	Clean   *big.Int // ["tls"].Timestamp, Unix ns
	CleanID string
}

func c18UnixNs(t time.Time) *big.Int {
	x := new(big.Int).Mul(big.NewInt(t.Unix()), big.NewInt(1e9))
	return x.Add(x, big.NewInt(int64(t.Nanosecond())))
}

func c18Classify(b []byte) c18Cls {
	var c c18Cls
	if blk, _ := pem.Decode(b); blk != nil && blk.Type == "CERTIFICATE" {
		if crt, err := x509.ParseCertificate(blk.Bytes); err == nil {
			c.Cert = c18UnixNs(crt.NotAfter)
		}
	}
	if resp, err := ocsp.ParseResponse(b, nil); err == nil {
		c.Staple = c18UnixNs(resp.NextUpdate)
	}
	var lc map[string]struct {
		Timestamp  time.Time `json:"timestamp"`
		InstanceID string    `json:"instance_id,omitempty"`
	}
	if err := json.Unmarshal(b, &lc); err == nil {
		c.Clean = c18UnixNs(lc["tls"].Timestamp)
		c.CleanID = lc["tls"].InstanceID
	}
	return c
}

// ---------------------------------------------------------------- back-ends

type c18Node struct {
	Dir bool
	Val []byte
}

type c18Backend interface {
	storage() certmagic.Storage
	put(key string, val []byte)
	mkdir(key string)
	snapshot() map[string]c18Node
	close()
	// what another actor does, not through the logging wrapper: fput returns the directories it had to create
	// (ok = false: the Store fails -- a directory in the way, a file where a directory is needed -- nothing happens)
	fput(key string, val []byte) (newDirs []string, ok bool)
	fdel(key string)
	// fpartial removes what key covers except the last file below it (and the folders leading to it); returns the
	// keys that survive (nothing below key: everything goes)
	fpartial(key string) []string
}

// c18Partial: which of the keys at or below key survive a partial Delete, given the snapshot
func c18Partial(snap map[string]c18Node, key string) (keep []string, remove []string) {
	var files, all []string
	for k, n := range snap {
		if k == key || strings.HasPrefix(k, key+"/") {
			all = append(all, k)
			if !n.Dir && k != key {
				files = append(files, k)
			}
		}
	}
	sort.Strings(files)
	sort.Strings(all)
	if len(files) == 0 {
		return nil, all
	}
	last := files[len(files)-1]
	for _, k := range all {
		if k == last || strings.HasPrefix(last, k+"/") {
			keep = append(keep, k)
		} else {
			remove = append(remove, k)
		}
	}
	return keep, remove
}

type c18MemBE struct{ b *doubles.MemBackend }

func (m *c18MemBE) storage() certmagic.Storage { return m.b.Handle("c18") }
func (m *c18MemBE) put(k string, v []byte)     { m.b.Put(k, v) }
func (m *c18MemBE) mkdir(string)               {}
func (m *c18MemBE) close()                     {}
func (m *c18MemBE) fput(k string, v []byte) ([]string, bool) {
	for _, x := range m.b.Keys() {
		if strings.HasPrefix(x, k+"/") || strings.HasPrefix(k, x+"/") {
			return nil, false
		}
	}
	m.b.Put(k, v)
	return nil, true
}
func (m *c18MemBE) fdel(k string)                    { m.b.Handle("c18-foreign").Delete(context.Background(), k) }
func (m *c18MemBE) fpartial(key string) []string {
	keep, remove := c18Partial(m.snapshot(), key)
	for _, k := range remove {
		m.fdel(k)
	}
	return keep
}
func (m *c18MemBE) snapshot() map[string]c18Node {
	out := map[string]c18Node{}
	for _, k := range m.b.Keys() {
		v, _ := m.b.Get(k)
		out[k] = c18Node{Val: v}
	}
	return out
}

type c18FsBE struct{ dir string }

func (f *c18FsBE) storage() certmagic.Storage { return &certmagic.FileStorage{Path: f.dir} }
func (f *c18FsBE) put(k string, v []byte) {
	p := filepath.Join(f.dir, filepath.FromSlash(k))
	os.MkdirAll(filepath.Dir(p), 0o700)
	if err := os.WriteFile(p, v, 0o600); err != nil {
		panic(err)
	}
}
func (f *c18FsBE) mkdir(k string) { os.MkdirAll(filepath.Join(f.dir, filepath.FromSlash(k)), 0o700) }
func (f *c18FsBE) close()         { os.RemoveAll(f.dir) }
func (f *c18FsBE) fput(k string, v []byte) (newDirs []string, ok bool) {
	parts := strings.Split(k, "/")
	for i := 1; i < len(parts); i++ {
		d := strings.Join(parts[:i], "/")
		fi, err := os.Stat(filepath.Join(f.dir, filepath.FromSlash(d)))
		if err != nil {
			newDirs = append(newDirs, d)
		} else if !fi.IsDir() {
			return nil, false
		}
	}
	p := filepath.Join(f.dir, filepath.FromSlash(k))
	if fi, err := os.Stat(p); err == nil && fi.IsDir() {
		return nil, false
	}
	f.put(k, v)
	return newDirs, true
}
func (f *c18FsBE) fdel(k string) { os.RemoveAll(filepath.Join(f.dir, filepath.FromSlash(k))) }
func (f *c18FsBE) fpartial(key string) []string {
	keep, remove := c18Partial(f.snapshot(), key)
	for i := len(remove) - 1; i >= 0; i-- { // children before their folders
		os.Remove(filepath.Join(f.dir, filepath.FromSlash(remove[i])))
	}
	return keep
}

const c18LockFile = "locks/storage_clean.lock"

// writeLock puts a lock file for storage_clean in place whose holder refreshed it age ago
func (f *c18FsBE) writeLock(age time.Duration) {
	t := time.Now().Add(-age)
	b, _ := json.Marshal(map[string]any{"created": t, "updated": t})
	p := filepath.Join(f.dir, filepath.FromSlash(c18LockFile))
	os.MkdirAll(filepath.Dir(p), 0o700)
	os.WriteFile(p, b, 0o644)
}
func (f *c18FsBE) snapshot() map[string]c18Node {
	out := map[string]c18Node{}
	filepath.Walk(f.dir, func(p string, info os.FileInfo, err error) error {
		if err != nil || p == f.dir {
			return nil
		}
		rel, _ := filepath.Rel(f.dir, p)
		k := filepath.ToSlash(rel)
		if k == c18LockFile {
			return nil // the Locker's own state, not Storage content
		}
		if info.IsDir() {
			out[k] = c18Node{Dir: true}
		} else {
			b, _ := os.ReadFile(p)
			out[k] = c18Node{Val: b}
		}
		return nil
	})
	return out
}

// ---------------------------------------------------------------- executing one case

type c18RunObs struct {
	Tid    int
	T0, T1 time.Time
	Res    int
	Err    string
	Killed int              // call number at which the process died (0 = it did not)
	Kept   map[int][]string // partial Deletes: call number -> surviving keys
}

func c18ResClass(err error) int {
	if err == nil {
		return 0
	}
	s := err.Error()
	switch {
	case strings.HasPrefix(s, "unable to acquire"):
		return 1
	case strings.HasPrefix(s, "loading last clean timestamp"):
		return 2
	case strings.HasPrefix(s, "decoding last clean data"):
		return 3
	case strings.HasPrefix(s, "storing last clean info"):
		return 4
	}
	return 9
}

// c18FopObs is a foreign operation as performed: Store of Val (Dir: a directory created on the way) or Delete
type c18FopObs struct {
	At  int
	Del bool
	Dir bool
	Key string
	Val []byte
}

type c18Exec struct {
	fops    map[int][]c18FopObs // per run (index into spec.Runs)
	spec    c18Spec
	before  map[string]c18Node
	after   map[string]c18Node
	runs    []c18RunObs // in lock order
	order   []int       // index into spec.Runs, lock order
	trace   []c18Event
	started time.Time
}

func (m *c18Mat) execute(spec c18Spec) *c18Exec {
	var be c18Backend
	if spec.Backend == "fs" {
		d, err := os.MkdirTemp("", "c18-")
		if err != nil {
			panic(err)
		}
		be = &c18FsBE{dir: d}
		be.mkdir("locks") // FileStorage.Lock creates it; present from the start so that it is no difference
	} else {
		be = &c18MemBE{b: doubles.NewMemBackend()}
	}
	defer be.close()
	if spec.AlignPhase {
		for i := 0; i < 200; i++ {
			ns := time.Now().Nanosecond()
			if ns >= 300e6 && ns <= 450e6 {
				break
			}
			time.Sleep(20 * time.Millisecond)
		}
	}
	now := time.Now()
	for _, it := range spec.Items {
		if it.Kind == "dir" {
			be.mkdir(it.Key)
			continue
		}
		be.put(it.Key, m.bytesOf(it, now))
	}
	ex := &c18Exec{spec: spec, started: now, fops: map[int][]c18FopObs{}}
	ex.before = be.snapshot()
	if fb, ok := be.(*c18FsBE); ok {
		switch spec.PreLock {
		case "stale":
			fb.writeLock(time.Hour)
		case "live":
			fb.writeLock(-time.Hour) // refreshed "in an hour": fresh however slowly this machine gets to the Lock call
		}
	}
	tr := &c18Trace{}
	obs := make([]c18RunObs, len(spec.Runs))
	runOne := func(i int, w *c18Wrap) {
		r := spec.Runs[i]
		ctx, cancel := context.WithCancel(context.Background())
		defer cancel()
		w.cancel = cancel
		opts := certmagic.CleanStorageOptions{Logger: zap.NewNop(), InstanceID: r.Inst, Interval: time.Duration(r.Interval),
			OCSPStaples: r.OCSP, ExpiredCerts: r.Certs, ExpiredCertGracePeriod: time.Duration(r.Grace)}
		t0 := time.Now()
		var err error
		killed := 0
		func() {
			defer func() {
				if p := recover(); p != nil {
					if _, ok := p.(c18KilledPanic); !ok {
						panic(p)
					}
					killed = w.killAt
				}
			}()
			err = certmagic.CleanStorage(ctx, w, opts)
		}()
		t1 := time.Now()
		if killed > 0 {
			// the process is dead; an hour passes: its lock file is no longer refreshed (the heartbeat goroutine of
			// this process stops at its next wake-up because the file's "created" is no longer the one it wrote)
			if fb, ok := be.(*c18FsBE); ok {
				fb.writeLock(time.Hour)
			}
		}
		if !w.tLock.IsZero() {
			t0 = w.tLock // every clock reading of the run lies between Lock's return and Unlock's call
		}
		if !w.tUnlock.IsZero() {
			t1 = w.tUnlock
		}
		o := c18RunObs{Tid: i, T0: t0, T1: t1, Res: c18ResClass(err), Killed: killed, Kept: w.kept}
		if err != nil {
			o.Err = err.Error()
		}
		if killed > 0 {
			o.Res, o.Err = 9, "killed"
		}
		obs[i] = o
	}
	mk := func(i int) *c18Wrap {
		r := spec.Runs[i]
		w := &c18Wrap{inner: be.storage(), tid: i, tr: tr, faults: map[int]bool{}, efaults: map[int]bool{}, cancelAt: r.Cancel, gateAt: -1,
			pfaults: map[int]bool{}, kept: map[int][]string{}, partial: be.fpartial,
			lockTimeout: time.Duration(spec.LockTimeoutMs) * time.Millisecond}
		for _, f := range r.PFaults {
			w.pfaults[f] = true
		}
		if spec.Backend == "fs" { // the double's lock does not expire: a dead holder would block the next cleaner for ever
			w.killAt = r.Kill
		}
		for _, f := range r.Faults {
			w.faults[f] = true
		}
		for _, f := range r.EFaults {
			w.efaults[f] = true
		}
		if len(r.Fops) > 0 {
			w.foreign = func(idx int) {
				for _, fo := range r.Fops {
					if fo.At != idx {
						continue
					}
					if fo.Del {
						be.fdel(fo.Item.Key)
						ex.fops[i] = append(ex.fops[i], c18FopObs{At: idx, Del: true, Key: fo.Item.Key})
						continue
					}
					val := m.bytesOf(fo.Item, now)
					dirs, ok := be.fput(fo.Item.Key, val)
					if !ok {
						continue
					}
					for _, d := range dirs {
						ex.fops[i] = append(ex.fops[i], c18FopObs{At: idx, Dir: true, Key: d})
					}
					ex.fops[i] = append(ex.fops[i], c18FopObs{At: idx, Key: fo.Item.Key, Val: val})
				}
			}
		}
		return w
	}
	if spec.Concurrent && len(spec.Runs) >= 2 {
		// run 0 is held inside the lock (before its 2nd call) until all others are about to call Lock
		var wg sync.WaitGroup
		inside := make(chan struct{})
		waiting := make(chan struct{}, len(spec.Runs))
		w0 := mk(0)
		w0.gateAt = 1
		w0.gate = func() {
			close(inside)
			for k := 1; k < len(spec.Runs); k++ {
				select {
				case <-waiting:
				case <-time.After(500 * time.Millisecond):
				}
			}
			time.Sleep(3 * time.Millisecond) // let them reach the (blocking) Lock
		}
		wg.Add(1)
		go func() { defer wg.Done(); runOne(0, w0) }()
		select {
		case <-inside:
		case <-time.After(500 * time.Millisecond):
		}
		for i := 1; i < len(spec.Runs); i++ {
			w := mk(i)
			w.announce = func() { waiting <- struct{}{} }
			wg.Add(1)
			go func(i int, w *c18Wrap) { defer wg.Done(); runOne(i, w) }(i, w)
		}
		wg.Wait()
	} else {
		for i := range spec.Runs {
			if i > 0 && spec.SleepMs > 0 {
				time.Sleep(time.Duration(spec.SleepMs) * time.Millisecond)
			}
			runOne(i, mk(i))
		}
	}
	if fb, ok := be.(*c18FsBE); ok && spec.PreLock == "live" {
		os.Remove(filepath.Join(fb.dir, filepath.FromSlash(c18LockFile)))
	}
	ex.after = be.snapshot()
	ex.trace = append([]c18Event(nil), tr.evs...)
	// lock order = order of the runs' first events in the merged trace
	seen := map[int]bool{}
	for _, e := range ex.trace {
		if !seen[e.Tid] {
			seen[e.Tid] = true
			ex.order = append(ex.order, e.Tid)
		}
	}
	for i := range spec.Runs {
		if !seen[i] {
			ex.order = append(ex.order, i)
		}
	}
	// a waiting cleaner's first event (its Lock) is logged when the lock is granted, so this is lock order
	for _, i := range ex.order {
		ex.runs = append(ex.runs, obs[i])
	}
	return ex
}

// boundary reports whether some decision of some run depends on where in [T0,T1] (widened by
// margin) the clock was read; such executions are retried / skipped, never judged.
func (ex *c18Exec) boundary(margin time.Duration) bool {
	var thresholds []*big.Int // instants at which a decision flips, per run option
	for _, r := range ex.runs {
		rs := ex.spec.Runs[r.Tid]
		lo := c18UnixNs(r.T0.Add(-margin))
		hi := c18UnixNs(r.T1.Add(margin))
		thresholds = thresholds[:0]
		nodes := []map[string]c18Node{ex.before} // stamps written by the runs themselves are handled below
		for _, m := range nodes {
			for k, n := range m {
				if n.Dir {
					continue
				}
				c := c18Classify(n.Val)
				if c.Cert != nil && strings.HasPrefix(k, "certificates/") {
					// now - (floor(na/1e9)*1e9+1e9) >= grace
					x := new(big.Int).Div(c.Cert, big.NewInt(1e9))
					x.Mul(x, big.NewInt(1e9)).Add(x, big.NewInt(1e9)).Add(x, big.NewInt(rs.Grace))
					thresholds = append(thresholds, x)
				}
				if c.Staple != nil && strings.HasPrefix(k, "ocsp/") {
					thresholds = append(thresholds, c.Staple)
				}
				if c.Clean != nil && k == "last_clean.json" && rs.Interval > 0 {
					thresholds = append(thresholds, new(big.Int).Add(c.Clean, big.NewInt(rs.Interval)))
				}
			}
		}
		// time stamps written by earlier runs of this case
		for _, q := range ex.runs {
			if rs.Interval > 0 && q.Tid != r.Tid {
				a := new(big.Int).Add(c18UnixNs(q.T0), big.NewInt(rs.Interval))
				b := new(big.Int).Add(c18UnixNs(q.T1), big.NewInt(rs.Interval))
				// the whole interval [a,b] of possible thresholds must miss [lo,hi]
				if !(b.Cmp(lo) < 0 || a.Cmp(hi) > 0) {
					if os.Getenv("C18_DEBUG") != "" {
						fmt.Fprintln(os.Stderr, "boundary: written stamp of run", q.Tid, "vs run", r.Tid, a, b, lo, hi)
					}
					return true
				}
			}
		}
		for _, t := range thresholds {
			if t.Cmp(lo) >= 0 && t.Cmp(hi) <= 0 {
				if os.Getenv("C18_DEBUG") != "" {
					fmt.Fprintln(os.Stderr, "boundary: threshold", t, "in", lo, hi, "run", r.Tid)
				}
				return true
			}
		}
	}
	return false
}

// ---------------------------------------------------------------- encoding

func (ex *c18Exec) encode() (wire string, obs map[string]any, feats map[string]string) {
	// key table
	idx := map[string]int{}
	var tbl []string
	id := func(k string) int {
		if i, ok := idx[k]; ok {
			return i
		}
		idx[k] = len(tbl)
		tbl = append(tbl, k)
		return idx[k]
	}
	keysOf := func(m map[string]c18Node) []string {
		ks := make([]string, 0, len(m))
		for k := range m {
			ks = append(ks, k)
		}
		sort.Strings(ks)
		return ks
	}
	for _, k := range keysOf(ex.before) {
		id(k)
	}
	for _, k := range keysOf(ex.after) {
		id(k)
	}
	for _, e := range ex.trace {
		id(e.Key)
	}
	for i := range ex.spec.Runs {
		for _, fo := range ex.fops[i] {
			id(fo.Key)
		}
	}
	for _, r := range ex.runs {
		for _, ks := range r.Kept {
			for _, k := range ks {
				id(k)
			}
		}
	}
	// value table: distinct byte strings of both snapshots; fresh = not among the initial values
	type val struct {
		fresh bool
		cls   c18Cls
	}
	vidx := map[[32]byte]int{}
	var vals []val
	foreignVals := map[string]c18Node{} // what other actors stored during the runs: not fresh
	for i := range ex.spec.Runs {
		for j, fo := range ex.fops[i] {
			if !fo.Del && !fo.Dir {
				foreignVals[fmt.Sprintf("%d/%d", i, j)] = c18Node{Val: fo.Val}
			}
		}
	}
	for pass, m := range []map[string]c18Node{ex.before, foreignVals, ex.after} {
		for _, k := range keysOf(m) {
			n := m[k]
			if n.Dir {
				continue
			}
			h := sha256.Sum256(n.Val)
			if _, ok := vidx[h]; !ok {
				vidx[h] = len(vals)
				vals = append(vals, val{fresh: pass == 2, cls: c18Classify(n.Val)})
			}
		}
	}
	e := &emit.Enc{}
	pstr := func(s string) { // length, then 7 bytes per number (little-endian); 17 digits per token is what Coq's numeral parser likes
		e.Len(len(s))
		for i := 0; i < len(s); i += 7 {
			var z int64
			for j := 6; j >= 0; j-- {
				z <<= 8
				if i+j < len(s) {
					z |= int64(s[i+j])
				}
			}
			e.Z(z)
		}
	}
	optBig := func(b *big.Int) {
		if b == nil {
			e.Bool(false)
		} else {
			e.Bool(true).Big(b.String())
		}
	}
	// key table: distinct path components once, every key as the list of its components' numbers
	// (keys share long prefixes; the vm_compute cross-check pays per digit)
	cidx := map[string]int{}
	var comps []string
	for _, k := range tbl {
		for _, c := range strings.Split(k, "/") {
			if _, ok := cidx[c]; !ok {
				cidx[c] = len(comps)
				comps = append(comps, c)
			}
		}
	}
	e.Len(len(comps))
	for _, c := range comps {
		pstr(c)
	}
	e.Len(len(tbl))
	for _, k := range tbl {
		parts := strings.Split(k, "/")
		e.Len(len(parts))
		for _, c := range parts {
			e.Int(cidx[c])
		}
	}
	if len(tbl) >= 1000 || len(vals) >= 990 {
		panic("c18 wire: key / value table too large for the packed entries")
	}
	e.Len(len(vals))
	for _, v := range vals {
		e.Bool(v.fresh)
		optBig(v.cls.Cert)
		optBig(v.cls.Staple)
		if v.cls.Clean == nil {
			e.Bool(false)
		} else {
			e.Bool(true).Big(v.cls.Clean.String())
			pstr(v.cls.CleanID)
		}
	}
	e.Bool(ex.spec.Backend == "fs")
	encStore := func(m map[string]c18Node) {
		ks := keysOf(m)
		e.Len(len(ks))
		for _, k := range ks {
			n := m[k]
			v := -2
			if !n.Dir {
				v = vidx[sha256.Sum256(n.Val)]
			}
			e.Int(id(k)*1000 + v + 2)
		}
	}
	encStore(ex.before)
	e.Len(len(ex.runs))
	for _, r := range ex.runs {
		rs := ex.spec.Runs[r.Tid]
		e.Int(r.Tid).Z(rs.Interval).Bool(rs.OCSP).Bool(rs.Certs).Z(rs.Grace)
		pstr(rs.Inst)
		faults := rs.Faults
		if ex.spec.PreLock == "live" && ex.spec.Backend == "fs" {
			faults = append([]int{0}, faults...) // a live holder for longer than the caller waits: Lock fails
		}
		e.Len(len(faults))
		for _, f := range faults {
			e.Int(f)
		}
		e.Len(len(rs.EFaults))
		for _, f := range rs.EFaults {
			e.Int(f)
		}
		if rs.Cancel < 0 {
			e.Bool(false)
		} else {
			e.Bool(true).Int(rs.Cancel)
		}
		e.Big(c18UnixNs(r.T0).String()).Big(c18UnixNs(r.T1).String()).Int(r.Res)
		fos := ex.fops[r.Tid]
		e.Len(len(fos))
		for _, fo := range fos {
			e.Int(fo.At)
			switch {
			case fo.Del:
				e.Int(1).Int(id(fo.Key))
			case fo.Dir:
				e.Int(0).Int(id(fo.Key)).Z(-2)
			default:
				e.Int(0).Int(id(fo.Key)).Int(vidx[sha256.Sum256(fo.Val)])
			}
		}
		var pidx []int
		for i := range r.Kept {
			pidx = append(pidx, i)
		}
		sort.Ints(pidx)
		e.Len(len(pidx))
		for _, i := range pidx {
			e.Int(i).Len(len(r.Kept[i]))
			for _, k := range r.Kept[i] {
				e.Int(id(k))
			}
		}
		if r.Killed > 0 {
			e.Bool(true).Int(r.Killed)
		} else {
			e.Bool(false)
		}
	}
	e.Len(len(ex.trace))
	for _, ev := range ex.trace {
		ok := 0
		if ev.OK {
			ok = 1
		}
		e.Int((ev.Tid*16+ev.Kind*2+ok)*1000 + id(ev.Key))
	}
	encStore(ex.after)

	// human-readable observation
	var deleted, added, changed []string
	for _, k := range keysOf(ex.before) {
		a, ok := ex.after[k]
		if !ok {
			deleted = append(deleted, k)
		} else if a.Dir != ex.before[k].Dir || !bytes.Equal(a.Val, ex.before[k].Val) {
			changed = append(changed, k)
		}
	}
	for _, k := range keysOf(ex.after) {
		if _, ok := ex.before[k]; !ok {
			added = append(added, k)
		}
	}
	kindNames := []string{"Lock", "Unlock", "Load", "List", "Stat", "Delete", "Store", "Exists"}
	var calls []string
	for _, ev := range ex.trace {
		ok := ""
		if !ev.OK {
			ok = "!"
		}
		calls = append(calls, fmt.Sprintf("%d:%s%s(%s)", ev.Tid, kindNames[ev.Kind], ok, ev.Key))
	}
	var results []string
	for _, r := range ex.runs {
		results = append(results, fmt.Sprintf("run%d:%d %s", r.Tid, r.Res, r.Err))
	}
	obs = map[string]any{"deleted": deleted, "added": added, "changed": changed, "results": results, "calls": calls}
	feats = map[string]string{"deleted": c18Bucket(len(deleted)), "calls": c18Bucket(len(ex.trace))}
	return e.String(), obs, feats
}

func c18Bucket(n int) string {
	switch {
	case n == 0:
		return "0"
	case n <= 2:
		return "1-2"
	case n <= 5:
		return "3-5"
	case n <= 10:
		return "6-10"
	case n <= 30:
		return "11-30"
	}
	return ">30"
}

// ---------------------------------------------------------------- generator

type c18Gen struct {
	r *rand.Rand
}

func (g *c18Gen) pick(xs ...string) string { return xs[g.r.Intn(len(xs))] }

var c18Graces = []int64{0, int64(time.Hour), int64(30 * 24 * time.Hour)}

// certOff returns NotAfter-now (seconds) for a certificate of the wanted class under grace.
func (g *c18Gen) certOff(class string, grace int64) int64 {
	gs := grace / 1e9
	switch class {
	case "valid":
		return []int64{5, 3600, 90 * 86400}[g.r.Intn(3)]
	case "expired_lt_grace": // expired, but not yet for the grace period (needs grace > 0)
		if gs == 0 {
			return 5
		}
		return -gs + []int64{5, gs / 2, gs - 5}[g.r.Intn(3)]
	case "expired_ge_grace":
		return -gs - []int64{6, 3600, 400 * 86400}[g.r.Intn(3)]
	}
	panic(class)
}

func (g *c18Gen) site(items *[]c18Item, hist func(string), backend, issuer, site string, grace int64) {
	base := "certificates/" + issuer + "/" + site + "/" + site
	add := func(k, kind string, off int64, text, why string) {
		*items = append(*items, c18Item{Key: k, Kind: kind, Off: off, Text: text, Why: why})
	}
	kind := g.pick("valid", "expired_lt_grace", "expired_ge_grace", "expired_ge_grace", "malformed", "crt_only", "key_only", "foreign", "second_crt", "empty_dir", "nested", "keydir", "crtdir", "dotcrt",
		"bundle", "bundle", "bundle")
	hist("site=" + kind)
	switch kind {
	case "valid", "expired_lt_grace", "expired_ge_grace":
		off := g.certOff(kind, grace)
		it := c18Item{Key: base + ".crt", Kind: "cert", Off: off, Why: kind}
		switch g.r.Intn(6) {
		case 0:
			if kind == "valid" { // not valid YET: NotBefore in an hour, NotAfter far away -- not expired
				it.Off, it.Off2 = 90*86400, 3600
				hist("cert_notbefore=future")
			}
		case 1: // issued long ago (a 10-year certificate)
			it.Off2 = off - 3650*86400
			hist("cert_notbefore=10y")
		}
		*items = append(*items, it)
		add(base+".key", "raw", 0, "@key", "")
		// the metadata may say anything (ARI window long past, "replaced"): only the certificate's own expiry counts
		add(base+".json", "raw", 0, g.pick(`{"sans":["`+site+`"]}`, `{"sans":["`+site+`"]}`,
			`{"sans":["`+site+`"],"issuer_data":{"renewal_info":{"suggestedWindow":{"start":"2020-01-01T00:00:00Z","end":"2020-01-02T00:00:00Z"},"_selectedTime":"2020-01-01T12:00:00Z"},"replaced":true}}`,
			`{"sans":["other.example"],"issuer_data":{"url":"https://ca.example/cert/1","not_after":"2001-01-01T00:00:00Z"}}`), "")
	case "bundle":
		// a .crt with several PEM blocks: only the first one -- the leaf, as certmagic stores it -- decides. The chain
		// may hold an intermediate that expired long ago (old cross-sign kept for compatibility) or expires before the
		// leaf; the leaf may come second; there may be other blocks or text
		layout := g.pick("leaf+int", "leaf+int", "leaf+int", "leaf+int+int", "int+leaf", "leaf+key", "text+leaf", "key+leaf")
		gs := grace / 1e9
		leafClass := g.pick("valid", "valid", "expired_lt_grace", "expired_ge_grace")
		off := g.certOff(leafClass, grace)
		var off2 int64
		switch g.r.Intn(3) {
		case 0: // expired for at least the grace period
			off2 = -gs - []int64{10, 86400, 400 * 86400}[g.r.Intn(3)]
		case 1: // expires before a valid leaf, or is expired for less than the grace period
			off2 = off - []int64{2, 3600}[g.r.Intn(2)]
			if off2 <= -gs {
				off2 = -gs + 3
			}
		case 2:
			off2 = 5 * 365 * 86400
		}
		if layout == "int+leaf" {
			// the first block decides: keep it unambiguous -- a valid intermediate in front of a leaf of any class
			if off2 <= 0 {
				off2 = 5 * 365 * 86400
			}
		}
		hist("bundle=" + layout)
		*items = append(*items, c18Item{Key: base + ".crt", Kind: "bundle", Off: off, Off2: off2, Text: layout, Why: "bundle"})
		add(base+".key", "raw", 0, "@key", "")
		add(base+".json", "raw", 0, `{}`, "")
	case "malformed":
		add(base+".crt", "raw", 0, g.pick("garbage", "", "@wrongpem", "@badder", "@key"), "malformed")
		add(base+".key", "raw", 0, "@key", "")
		add(base+".json", "raw", 0, `{}`, "")
	case "crt_only":
		add(base+".crt", "cert", g.certOff(g.pick("valid", "expired_ge_grace"), grace), "", "crt_only")
	case "key_only":
		add(base+".key", "raw", 0, "@key", "")
		if g.r.Intn(2) == 0 {
			add(base+".json", "raw", 0, `{}`, "")
		}
	case "foreign": // a normal site plus files that are not the certificate's assets
		add(base+".crt", "cert", g.certOff(g.pick("valid", "expired_ge_grace", "expired_ge_grace"), grace), "", "foreign")
		add(base+".key", "raw", 0, "@key", "")
		add(base+".json", "raw", 0, `{}`, "")
		dir := "certificates/" + issuer + "/" + site + "/"
		for _, f := range []string{"notes.txt", site + ".crt.bak", site + ".pem", "README", site + ".keys", "x" + site + ".key"} {
			if g.r.Intn(2) == 0 {
				add(dir+f, "raw", 0, "foreign "+f, "")
			}
		}
		if g.r.Intn(2) == 0 { // an expired certificate in a file whose name merely ends in "crt": not an X.crt
			add(dir+"archive-crt", "cert", g.certOff("expired_ge_grace", grace), "", "")
		}
		if g.r.Intn(2) == 0 { // path.Ext is case-sensitive: an expired certificate in X.CRT is not looked at
			add(dir+"other.CRT", "cert", g.certOff("expired_ge_grace", grace), "", "")
			add(dir+"other.key", "raw", 0, "@key", "")
		}
	case "second_crt": // two certificates in one folder with different fates
		add(base+".crt", "cert", g.certOff("valid", grace), "", "second_crt")
		add(base+".key", "raw", 0, "@key", "")
		other := "certificates/" + issuer + "/" + site + "/old." + site
		add(other+".crt", "cert", g.certOff("expired_ge_grace", grace), "", "second_crt")
		add(other+".key", "raw", 0, "@key", "")
		add(other+".json", "raw", 0, `{}`, "")
	case "empty_dir":
		if backend == "fs" {
			add("certificates/"+issuer+"/"+site, "dir", 0, "", "")
		} else {
			add(base+".json", "raw", 0, `{}`, "")
		}
	case "nested": // a sub-folder inside the site folder (listing must not be recursive)
		add(base+".crt", "cert", g.certOff(g.pick("valid", "expired_ge_grace"), grace), "", "nested")
		add(base+".key", "raw", 0, "@key", "")
		sub := "certificates/" + issuer + "/" + site + "/backup/" + site
		add(sub+".crt", "cert", g.certOff("expired_ge_grace", grace), "", "nested")
		add(sub+".key", "raw", 0, "@key", "")
	case "crtdir": // X.crt is a folder: Load fails, deleteExpiredCerts returns an error
		add(base+".crt/inner.pem", "cert", g.certOff("expired_ge_grace", grace), "", "crtdir")
		add(base+".key", "raw", 0, "@key", "")
	case "dotcrt": // a file named ".crt": base name = the folder + "/"
		dir := "certificates/" + issuer + "/" + site + "/"
		add(dir+".crt", "cert", g.certOff(g.pick("valid", "expired_ge_grace"), grace), "", "dotcrt")
		add(dir+".key", "raw", 0, "@key", "")
		add(dir+".json", "raw", 0, "{}", "")
		add(dir+"x.key", "raw", 0, "@key", "")
	case "keydir": // X.key is a folder
		add(base+".crt", "cert", g.certOff(g.pick("valid", "expired_ge_grace"), grace), "", "keydir")
		add(base+".key/inner.pem", "raw", 0, "@key", "")
		if g.r.Intn(2) == 0 { // two files below: a Delete of X.key can take effect in part
			add(base+".key/sub/other.pem", "raw", 0, "@key", "")
		}
		add(base+".json", "raw", 0, `{}`, "")
	}
}

func (g *c18Gen) spec(hist func(string)) c18Spec {
	sp := c18Spec{Backend: g.pick("mem", "fs")}
	var items []c18Item
	add := func(k, kind string, off int64, text string) {
		items = append(items, c18Item{Key: k, Kind: kind, Off: off, Text: text})
	}
	// options of the (first) run
	run := c18Run{OCSP: g.r.Intn(4) != 0, Certs: g.r.Intn(5) != 0, Grace: c18Graces[g.r.Intn(3)], Inst: g.pick("", "inst-a", "b"), Cancel: -1}
	// last_clean.json state and interval
	lc := g.pick("absent", "absent", "recent", "old", "old", "future", "notls", "corrupt", "nointerval", "nointerval", "dir")
	if lc == "dir" && sp.Backend != "fs" {
		lc = "old"
	}
	hist("last_clean=" + lc)
	hour := int64(time.Hour)
	switch lc {
	case "absent":
		run.Interval = hour
	case "recent":
		run.Interval = 2 * hour
		if g.r.Intn(3) == 0 { // other entries in the file say "long ago": only "tls" counts
			items = append(items, c18Item{Key: "last_clean.json", Kind: "lastclean_multi", Off: -[]int64{3, 3600}[g.r.Intn(2)], Off2: -400 * 86400, Text: "prev"})
			hist("last_clean_multi=recent")
		} else {
			add("last_clean.json", "lastclean", -[]int64{3, 3600, 7190}[g.r.Intn(3)], "prev")
		}
	case "old":
		run.Interval = hour
		if g.r.Intn(3) == 0 { // other entries in the file are recent: only "tls" counts
			items = append(items, c18Item{Key: "last_clean.json", Kind: "lastclean_multi", Off: -[]int64{3610, 86400}[g.r.Intn(2)], Off2: -5, Text: "prev"})
			hist("last_clean_multi=old")
		} else {
			add("last_clean.json", "lastclean", -[]int64{3610, 86400, 3 * 365 * 86400}[g.r.Intn(3)], "prev")
		}
	case "future":
		run.Interval = hour
		add("last_clean.json", "lastclean", 600, "prev")
	case "notls":
		run.Interval = hour
		add("last_clean.json", "lastclean_notls", 0, "")
	case "corrupt":
		run.Interval = hour
		add("last_clean.json", "raw", 0, g.pick("{not json", "", `{"tls":{"timestamp":"yesterday"}}`, "[1,2]"))
	case "nointerval": // Interval <= 0: no check whatever the file says
		run.Interval = []int64{0, 0, -hour}[g.r.Intn(3)]
		switch g.r.Intn(3) {
		case 0:
			add("last_clean.json", "lastclean", -1, "prev")
		case 1:
			add("last_clean.json", "raw", 0, "{corrupt")
		}
	case "dir":
		run.Interval = []int64{hour, hour, 0}[g.r.Intn(3)] // Interval 0: cleans, then the Store fails
		add("last_clean.json/x", "raw", 0, "inside")
	}
	// certificates
	nIss := 1 + g.r.Intn(2)
	if g.r.Intn(8) == 0 {
		nIss = 3
	}
	certsIsFile := false
	if g.r.Intn(12) == 0 {
		nIss = 0
		if g.r.Intn(2) == 0 {
			add("certificates", "raw", 0, "certificates is a file")
			hist("stray=certificates_is_a_file")
			certsIsFile = true
		}
	}
	// names in which ".crt" occurs before the extension, or that end in letters of ".crt" (a base name derived by
	// Replace / TrimRight instead of TrimSuffix goes wrong on them)
	siteNames := []string{"a.example", "b.example.com", "wildcard_.c.example", "d-e.example", "f.example", "10.0.0.1", "zz.example",
		"my.crt.example", "router.net"}
	for i := 0; i < nIss; i++ {
		issuer := []string{g.pick("le-dir", "le-dir", "acme-v02.api.letsencrypt.org-directory"), "zs-dv90",
			g.pick("acme-staging-v02.api.letsencrypt.org-directory", "local", "ca.internal-acme-directory")}[i]
		ns := 1 + g.r.Intn(4)
		perm := g.r.Perm(len(siteNames))
		for j := 0; j < ns; j++ {
			g.site(&items, hist, sp.Backend, issuer, siteNames[perm[j]], run.Grace)
		}
		if g.r.Intn(3) == 0 { // a stray file next to the site folders (fixed finding: was deleted on FileStorage)
			add("certificates/"+issuer+"/"+g.pick("stray.txt", ".DS_Store", "notes.crt"), "raw", 0, "stray")
			hist("stray=issuer_folder")
		}
	}
	if g.r.Intn(4) == 0 && !certsIsFile {
		add("certificates/"+g.pick("README", "backup.crt"), "raw", 0, "top-level stray")
		hist("stray=certificates_folder")
	}
	if g.r.Intn(8) == 0 && sp.Backend == "fs" && !certsIsFile {
		items = append(items, c18Item{Key: "certificates/empty-issuer", Kind: "dir"})
		hist("stray=empty_issuer_dir")
	}
	// staples
	nSt := g.r.Intn(6)
	if g.r.Intn(10) == 0 {
		nSt = 0
		if g.r.Intn(2) == 0 {
			add("ocsp", "staple", -3600, "")
			hist("stray=ocsp_is_a_file")
		}
	}
	for j := 0; j < nSt; j++ {
		k := fmt.Sprintf("ocsp/%s-%08x", siteNames[g.r.Intn(len(siteNames))], g.r.Uint32())
		kind := g.pick("fresh", "fresh", "expired", "expired", "corrupt", "nonext", "dir", "certbytes")
		hist("staple=" + kind)
		switch kind {
		case "fresh": // whatever else the response says (revoked, unknown, produced long ago or "in the future")
			add(k, "staple", []int64{4, 3600, 7 * 86400}[g.r.Intn(3)], g.pick("", "", "revoked", "unknown", "recent", "future_this", "withcert"))
		case "expired":
			add(k, "staple", -[]int64{4, 3600, 400 * 86400}[g.r.Intn(3)], g.pick("", "", "revoked", "unknown", "recent", "withcert"))
		case "corrupt":
			add(k, "raw", 0, g.pick("garbage", "", "@truncstaple", "@key"))
		case "nonext":
			add(k, "staple0", 0, "")
		case "dir":
			add(k+"/inner", "staple", -3600, "")
		case "certbytes":
			add(k, "raw", 0, "@capem")
		}
	}
	// unrelated keys
	if g.r.Intn(4) != 0 {
		ca := g.pick("le-dir", "le-staging-dir")
		add("acme/"+ca+"/users/me@example.com/me.json", "raw", 0, `{"status":"valid"}`)
		add("acme/"+ca+"/users/me@example.com/me.key", "raw", 0, "@key")
		hist("unrelated=account")
	}
	if g.r.Intn(3) == 0 {
		add("locks/issue_cert_a.example.lock", "raw", 0, `{"created":"2020-01-01T00:00:00Z","updated":"2020-01-01T00:00:00Z"}`)
		hist("unrelated=lockfile")
	}
	if g.r.Intn(3) == 0 {
		add(g.pick("ocsp.bak", "certificates.txt", "certificatesX/i/s/s.crt", "ocspx/abc", "instance.uuid", "acme/x.crt"), "cert", -86400*400, "")
		hist("unrelated=lookalike")
	}
	sp.Items = items
	// faults / cancellation
	switch g.r.Intn(10) {
	case 0, 1:
		n := 1 + g.r.Intn(2)
		for i := 0; i < n; i++ {
			if g.r.Intn(2) == 0 {
				run.Faults = append(run.Faults, g.r.Intn(8)) // Lock, the Load of last_clean.json, the first listings
			} else {
				run.Faults = append(run.Faults, g.r.Intn(40))
			}
		}
		sort.Ints(run.Faults)
		hist("env=faults")
	case 2:
		run.Cancel = g.r.Intn(30)
		hist("env=cancel")
	default:
		hist("env=plain")
	}
	sp.Runs = []c18Run{run}
	// further runs
	switch g.r.Intn(8) {
	case 0, 1: // sequential second run
		r2 := run
		r2.Faults, r2.Cancel = nil, -1
		r2.Inst = "second"
		switch g.r.Intn(3) {
		case 0:
			r2.Interval = 2 * hour // recorded just now => skip
		case 1:
			r2.Interval = 0
		case 2:
			r2.Interval = int64(10 * time.Millisecond)
			sp.SleepMs = 80
		}
		r2.OCSP, r2.Certs = true, true
		r2.Grace = c18Graces[g.r.Intn(3)]
		sp.Runs = append(sp.Runs, r2)
		hist("runs=sequential2")
	case 2: // concurrent cleaners (in-memory: the double's Lock blocks; FileStorage polls once a second)
		if sp.Backend == "mem" {
			sp.Runs[0].Faults, sp.Runs[0].Cancel = nil, -1
			n := 1 + g.r.Intn(2)
			for i := 0; i < n; i++ {
				r2 := sp.Runs[0]
				r2.Inst = fmt.Sprintf("conc%d", i+1)
				if g.r.Intn(2) == 0 {
					r2.Interval = 2 * hour
				} else {
					r2.Interval = 0
				}
				sp.Runs = append(sp.Runs, r2)
			}
			sp.Concurrent = true
			hist(fmt.Sprintf("runs=concurrent%d", n+1))
		} else {
			hist("runs=single")
		}
	default:
		hist("runs=single")
	}
	return sp
}

// ---------------------------------------------------------------- other actors during a cleaning

// c18RaceWindow reports whether a foreign Store of key k just before call number at falls between a
// read on which the cleaner based a decision to delete and the Delete that covers k (judged on the
// trace of the same cleaning without interference): Load(X.crt) .. Delete(X.crt|X.key|X.json),
// Load(staple) .. Delete(staple), List(site folder)=empty, Stat .. Delete(site folder).
func c18RaceWindow(dry []c18Event, at int, k string) bool {
	for j := at; j < len(dry); j++ {
		if dry[j].Kind != 5 {
			continue
		}
		x := dry[j].Key
		if !(x == k || strings.HasPrefix(k, x+"/")) {
			continue
		}
		d := -1
		if j >= 2 && dry[j-1].Kind == 4 && dry[j-1].Key == x {
			d = j - 2 // the listing that found the folder empty
		} else {
			for i := j - 1; i >= 0; i-- {
				if dry[i].Kind == 2 {
					d = i
					break
				}
			}
		}
		if d >= 0 && d < at {
			return true
		}
	}
	return false
}

// foreign adds the operations of 1-3 other actors (each at its own instant, each of its own kind) to run ri of
// sp, placed at calls of the interference-free execution dry (the run's own calls); returns whether one of
// them falls into a race window.
func (g *c18Gen) foreign(sp *c18Spec, ri int, dry []c18Event, hist func(string)) (race bool) {
	if len(dry) < 4 {
		return false
	}
	run := &sp.Runs[ri]
	var sites, crts, staples, all []string
	seen := map[string]bool{}
	for _, it := range sp.Items {
		if it.Kind != "dir" {
			all = append(all, it.Key)
		}
		p := strings.Split(it.Key, "/")
		if p[0] == "certificates" && len(p) >= 4 {
			sk := strings.Join(p[:3], "/")
			if !seen[sk] {
				seen[sk] = true
				sites = append(sites, sk)
			}
			if len(p) == 4 && strings.HasSuffix(it.Key, ".crt") {
				crts = append(crts, it.Key)
			}
		}
		if p[0] == "ocsp" && len(p) == 2 {
			staples = append(staples, it.Key)
		}
	}
	// several actors at several instants (two times out of five): the monitor judges a deletion by what the
	// storage held after any of the others' operations (Check.states_since_touch)
	nAct := 1
	if g.r.Intn(5) < 2 {
		nAct = 2 + g.r.Intn(2)
	}
	hist(fmt.Sprintf("foreign_actors=%d", nAct))
	for q := 0; q < nAct; q++ {
		// aim at the calls around Deletes half of the time (that is where the windows are)
		at := 1 + g.r.Intn(len(dry)-2)
		if g.r.Intn(3) != 0 {
			var dels []int
			for j, ev := range dry {
				if ev.Kind == 5 && j >= 2 && j < len(dry)-1 {
					dels = append(dels, j)
				}
			}
			if len(dels) > 0 {
				at = dels[g.r.Intn(len(dels))] - g.r.Intn(3)
				if at < 1 {
					at = 1
				}
			}
		}
		add := func(del bool, it c18Item) {
			run.Fops = append(run.Fops, c18Fop{At: at, Del: del, Item: it})
			if !del && c18RaceWindow(dry, at, it.Key) {
				race = true
			}
		}
		kind := g.pick("renew", "renew", "late_expired", "note", "staple", "del", "account")
		if (kind == "renew" || kind == "late_expired" || kind == "note") && len(sites) == 0 {
			kind = "account"
		}
		if kind == "del" && len(all) == 0 {
			kind = "account"
		}
		hist("foreign=" + kind)
		switch kind {
		case "renew": // another instance obtains / renews the certificate of a site: fresh trio in the site folder
			sk := sites[g.r.Intn(len(sites))]
			name := sk[strings.LastIndex(sk, "/")+1:]
			add(false, c18Item{Key: sk + "/" + name + ".crt", Kind: "cert", Off: 60 * 86400})
			add(false, c18Item{Key: sk + "/" + name + ".key", Kind: "raw", Text: "@key"})
			add(false, c18Item{Key: sk + "/" + name + ".json", Kind: "raw", Text: `{"renewed":true}`})
		case "late_expired": // an expired certificate appears (restored backup)
			sk := sites[g.r.Intn(len(sites))]
			add(false, c18Item{Key: sk + "/late.crt", Kind: "cert", Off: -400 * 86400})
			if g.r.Intn(2) == 0 {
				add(false, c18Item{Key: sk + "/late.key", Kind: "raw", Text: "@key"})
			}
		case "note":
			sk := sites[g.r.Intn(len(sites))]
			add(false, c18Item{Key: sk + "/note.txt", Kind: "raw", Text: "written meanwhile"})
		case "staple":
			k := fmt.Sprintf("ocsp/late.example-%08x", g.r.Uint32())
			if len(staples) > 0 && g.r.Intn(2) == 0 {
				k = staples[g.r.Intn(len(staples))] // a staple is refreshed / goes stale under the cleaner's feet
			}
			add(false, c18Item{Key: k, Kind: "staple", Off: []int64{7200, -7200}[g.r.Intn(2)]})
		case "del":
			k := all[g.r.Intn(len(all))]
			if len(crts) > 0 && g.r.Intn(2) == 0 {
				k = crts[g.r.Intn(len(crts))]
			}
			if g.r.Intn(4) == 0 && len(sites) > 0 {
				k = sites[g.r.Intn(len(sites))] // a whole site folder
			}
			add(true, c18Item{Key: k})
		case "account":
			add(false, c18Item{Key: fmt.Sprintf("acme/le-dir/users/new%d@example.com/new.key", q), Kind: "raw", Text: "@key"})
		}
	}
	// the wrapper applies the operations of one instant in the order given; keep instants in time order
	sort.SliceStable(run.Fops, func(i, j int) bool { return run.Fops[i].At < run.Fops[j].At })
	return race
}

// ---------------------------------------------------------------- corpus

func c18Corpus() []struct {
	class string
	spec  c18Spec
} {
	day := int64(86400)
	full := func(issuer, site string, off int64) []c18Item {
		b := "certificates/" + issuer + "/" + site + "/" + site
		return []c18Item{{Key: b + ".crt", Kind: "cert", Off: off}, {Key: b + ".key", Kind: "raw", Text: "@key"}, {Key: b + ".json", Kind: "raw", Text: "{}"}}
	}
	plain := c18Run{OCSP: true, Certs: true, Grace: 0, Cancel: -1, Inst: "corpus"}
	var out []struct {
		class string
		spec  c18Spec
	}
	for _, be := range []string{"fs", "mem"} {
		// fixed finding C18-stray-file: a plain file in an issuer folder was deleted as "empty site folder"
		items := append(full("iss", "live.example", 30*day), full("iss", "dead.example", -30*day)...)
		items = append(items, c18Item{Key: "certificates/iss/stray.txt", Kind: "raw", Text: "precious"},
			c18Item{Key: "certificates/top.txt", Kind: "raw", Text: "precious"})
		out = append(out, struct {
			class string
			spec  c18Spec
		}{"corpus_stray_file_in_issuer_folder", c18Spec{Backend: be, Items: items, Runs: []c18Run{plain}}})
		// grace boundary on both sides, staples of each kind, account data, a lock file
		g := c18Run{OCSP: true, Certs: true, Grace: 30 * day * 1e9, Cancel: -1, Inst: "corpus", Interval: int64(time.Hour)}
		items = append(full("iss", "in-grace.example", -29*day), full("iss", "past-grace.example", -31*day)...)
		items = append(items, full("iss2", "valid.example", 60*day)...)
		items = append(items,
			c18Item{Key: "ocsp/a-1", Kind: "staple", Off: 3600}, c18Item{Key: "ocsp/a-2", Kind: "staple", Off: -3600},
			c18Item{Key: "ocsp/a-3", Kind: "raw", Text: "garbage"}, c18Item{Key: "ocsp/sub/a-4", Kind: "staple", Off: -3600},
			c18Item{Key: "acme/ca/users/u/u.key", Kind: "raw", Text: "@key"}, c18Item{Key: "locks/x.lock", Kind: "raw", Text: "{}"},
			c18Item{Key: "last_clean.json", Kind: "lastclean", Off: -2 * day, Text: "old"})
		out = append(out, struct {
			class string
			spec  c18Spec
		}{"corpus_grace_and_staples", c18Spec{Backend: be, Items: items, Runs: []c18Run{g}}})
		// recorded recently: nothing may happen although everything is expired
		r := g
		r.Interval = int64(24 * time.Hour)
		items2 := append([]c18Item(nil), items[:len(items)-1]...)
		items2 = append(items2, c18Item{Key: "last_clean.json", Kind: "lastclean", Off: -3600, Text: "other"})
		out = append(out, struct {
			class string
			spec  c18Spec
		}{"corpus_skip_recent", c18Spec{Backend: be, Items: items2, Runs: []c18Run{r}}})
	}
	// expiresAt = NotAfter truncated to the second + 1 s: with the clock 0.3-0.45 s into a second,
	// NotAfter = floor(now) - grace is expired for (grace - 1 s + 0.3..0.45 s) < grace: stays;
	// NotAfter = floor(now) - grace - 1 s is expired for grace + 0.3..0.45 s: goes
	for _, be := range []string{"fs", "mem"} {
		for _, gr := range []int64{0, 3600} {
			items := append(full("iss", "stays.example", -gr), full("iss", "goes.example", -gr-1)...)
			items = append(items, c18Item{Key: "ocsp/s-1", Kind: "staple", Off: 1}, c18Item{Key: "ocsp/s-2", Kind: "staple", Off: 0}, c18Item{Key: "ocsp/s-3", Kind: "staple", Off: -1})
			r := c18Run{OCSP: true, Certs: true, Grace: gr * 1e9, Cancel: -1, Inst: "phase"}
			out = append(out, struct {
				class string
				spec  c18Spec
			}{"corpus_expiresat_second_rounding", c18Spec{Backend: be, Items: items, Runs: []c18Run{r}, AlignPhase: true}})
		}
	}
	// another instance stores a fresh certificate into the site folder of a long-expired one while the
	// cleaner works on it. FileStorage (folders exist on their own), calls: 0 Lock, 1 List certificates,
	// 2 List iss, 3 List site, 4 Load crt, 5-7 Delete crt/key/json, 8 List site (empty), 9 Stat, 10 Delete site,
	// 11 Store last_clean.json, 12 Unlock.
	{
		site := "certificates/iss/dead.example"
		renew := func(at int) []c18Fop {
			return []c18Fop{{At: at, Item: c18Item{Key: site + "/dead.example.crt", Kind: "cert", Off: 60 * day}},
				{At: at, Item: c18Item{Key: site + "/dead.example.key", Kind: "raw", Text: "@key"}},
				{At: at, Item: c18Item{Key: site + "/dead.example.json", Kind: "raw", Text: `{"renewed":true}`}}}
		}
		base := append(full("iss", "dead.example", -30*day), c18Item{Key: "acme/ca/users/u/u.key", Kind: "raw", Text: "@key"})
		r := c18Run{Certs: true, Grace: 0, Cancel: -1, Inst: "corpus"}
		for _, c := range []struct {
			class string
			at    int
		}{{"corpus_foreign_writer_before_relist", 8}, {"corpus_foreign_writer_before_load", 4},
			{"corpus_foreign_writer_toctou_folder", 10}, {"corpus_foreign_writer_toctou_load_delete", 5}} {
			rr := r
			rr.Fops = renew(c.at)
			out = append(out, struct {
				class string
				spec  c18Spec
			}{c.class, c18Spec{Backend: "fs", Items: base, Runs: []c18Run{rr}}})
		}
	}
	// the Delete of an emptied site folder fails (call 10): deleteExpiredCerts returns; the next site is not
	// visited in this run, the record is still written
	{
		its := append(full("iss", "a-dead.example", -30*day), full("iss", "b-dead.example", -40*day)...)
		r := c18Run{Certs: true, Grace: 0, Cancel: -1, Inst: "corpus", Faults: []int{10}}
		out = append(out, struct {
			class string
			spec  c18Spec
		}{"corpus_folder_delete_fails", c18Spec{Backend: "fs", Items: its, Runs: []c18Run{r}}})
		// the same Delete takes effect but reports an error (a time-out after the fact): the folder is gone,
		// deleteExpiredCerts returns all the same
		r2 := c18Run{Certs: true, Grace: 0, Cancel: -1, Inst: "corpus", EFaults: []int{10}}
		out = append(out, struct {
			class string
			spec  c18Spec
		}{"corpus_folder_delete_effect_then_error", c18Spec{Backend: "fs", Items: its, Runs: []c18Run{r2}}})
		// the Store of the record takes effect but reports an error: CleanStorage returns the error, the record
		// is there; a second cleaning within the interval skips
		one := full("iss", "a-dead.example", -30*day)
		r3 := c18Run{Certs: true, Grace: 0, Cancel: -1, Inst: "corpus", EFaults: []int{11}}
		r4 := c18Run{Certs: true, OCSP: true, Grace: 0, Cancel: -1, Inst: "second", Interval: int64(2 * time.Hour)}
		out = append(out, struct {
			class string
			spec  c18Spec
		}{"corpus_record_effect_then_error", c18Spec{Backend: "fs", Items: one, Runs: []c18Run{r3, r4}}})
	}
	// certificate files with several PEM blocks: the leaf (first block) decides, whatever else the file holds. The sites:
	// valid leaf + intermediate expired 400 d ago (must stay), valid leaf + intermediate that expires before it (stays),
	// valid intermediate first + long-expired leaf second (the first block decides: stays), long-expired leaf + valid
	// intermediate + key block + text (goes), valid leaf with two old intermediates (stays)
	for _, be := range []string{"fs", "mem"} {
		bsite := func(site, layout string, off, off2 int64) []c18Item {
			b := "certificates/iss/" + site + "/" + site
			return []c18Item{{Key: b + ".crt", Kind: "bundle", Off: off, Off2: off2, Text: layout},
				{Key: b + ".key", Kind: "raw", Text: "@key"}, {Key: b + ".json", Kind: "raw", Text: "{}"}}
		}
		var its []c18Item
		its = append(its, bsite("a-oldchain.example", "leaf+int", 60*day, -400*day)...)
		its = append(its, bsite("b-shortchain.example", "leaf+int", 60*day, 10*day)...)
		its = append(its, bsite("c-swapped.example", "int+leaf", -400*day, 900*day)...)
		its = append(its, bsite("d-dead.example", "leaf+key", -400*day, 900*day)...)
		its = append(its, bsite("e-twoold.example", "leaf+int+int", 30*day, -40*day)...)
		its = append(its, bsite("f-text.example", "text+leaf", 30*day, -40*day)...)
		for _, gr := range []int64{0, 30 * day * 1e9} {
			r := c18Run{Certs: true, OCSP: true, Grace: gr, Cancel: -1, Inst: "corpus"}
			out = append(out, struct {
				class string
				spec  c18Spec
			}{"corpus_bundles", c18Spec{Backend: be, Items: its, Runs: []c18Run{r}}})
		}
	}
	// a cleaner killed while it holds the lock (FileStorage): run 1 dies when its call 6 begins (X.crt deleted, X.key and
	// X.json not yet); its lock file goes stale; run 2 removes the stale lock and cleans what it finds (the orphans stay:
	// nothing says they are expired). Calls of run 1: 0 Lock, 1 List certificates, 2 List iss, 3 List site, 4 Load crt,
	// 5 Delete crt, 6 Delete key ...
	{
		its := append(full("iss", "dead.example", -30*day), full("iss", "live.example", 30*day)...)
		its = append(its, c18Item{Key: "ocsp/a-2", Kind: "staple", Off: -3600}, c18Item{Key: "acme/ca/users/u/u.key", Kind: "raw", Text: "@key"})
		r1 := c18Run{Certs: true, Grace: 0, Cancel: -1, Inst: "dies", Kill: 6}
		r2 := c18Run{Certs: true, OCSP: true, Grace: 0, Cancel: -1, Inst: "next", Interval: int64(2 * time.Hour)}
		out = append(out, struct {
			class string
			spec  c18Spec
		}{"corpus_killed_then_cleaned", c18Spec{Backend: "fs", Items: its, Runs: []c18Run{r1, r2}}})
		// killed when its Unlock begins (call 12 here: ... 8 List site, 9 Stat, 10 Delete site, 11 Store, 12 Unlock):
		// everything done and recorded, the lock never released; the next cleaner gets the lock after staleness and,
		// within the interval, does nothing
		one := full("iss", "dead.example", -30*day)
		r3 := c18Run{Certs: true, Grace: 0, Cancel: -1, Inst: "dies", Kill: 12}
		out = append(out, struct {
			class string
			spec  c18Spec
		}{"corpus_killed_before_unlock", c18Spec{Backend: "fs", Items: one, Runs: []c18Run{r3, r2}}})
		// a stale lock file of a holder that died an hour ago is there before the first cleaning: it proceeds
		out = append(out, struct {
			class string
			spec  c18Spec
		}{"corpus_stale_lock_at_start", c18Spec{Backend: "fs", Items: its, Runs: []c18Run{r2}, PreLock: "stale"}})
		// a live holder keeps the lock for longer than the caller waits: CleanStorage returns an error, nothing is touched
		out = append(out, struct {
			class string
			spec  c18Spec
		}{"corpus_live_lock_held", c18Spec{Backend: "fs", Items: its, Runs: []c18Run{r2}, PreLock: "live", LockTimeoutMs: 300}})
	}
	// a Delete that takes effect in part: X.key is a folder with two files; Delete(X.key) (call 6) removes one, then
	// fails; the run goes on (X.json goes), the site folder is not empty and stays
	for _, be := range []string{"fs", "mem"} {
		b := "certificates/iss/dead.example/dead.example"
		its := []c18Item{{Key: b + ".crt", Kind: "cert", Off: -30 * day}, {Key: b + ".key/inner/a.pem", Kind: "raw", Text: "@key"},
			{Key: b + ".key/inner/b.pem", Kind: "raw", Text: "@key"}, {Key: b + ".json", Kind: "raw", Text: "{}"},
			{Key: "acme/ca/users/u/u.key", Kind: "raw", Text: "@key"}}
		r := c18Run{Certs: true, Grace: 0, Cancel: -1, Inst: "corpus", PFaults: []int{6}}
		out = append(out, struct {
			class string
			spec  c18Spec
		}{"corpus_partial_delete", c18Spec{Backend: be, Items: its, Runs: []c18Run{r}}})
	}
	// two concurrent cleaners, second one must wait and then skip / clean again
	items := append(full("iss", "dead.example", -30*day), full("iss", "live.example", 30*day)...)
	items = append(items, c18Item{Key: "ocsp/a-2", Kind: "staple", Off: -3600})
	a := c18Run{OCSP: true, Certs: true, Cancel: -1, Inst: "A", Interval: int64(time.Hour)}
	b := a
	b.Inst = "B"
	out = append(out, struct {
		class string
		spec  c18Spec
	}{"corpus_concurrent_mem", c18Spec{Backend: "mem", Items: items, Runs: []c18Run{a, b}, Concurrent: true}})
	out = append(out, struct {
		class string
		spec  c18Spec
	}{"corpus_concurrent_fs", c18Spec{Backend: "fs", Items: items, Runs: []c18Run{a, b}, Concurrent: true}})
	return out
}

// ---------------------------------------------------------------- driver

func runC18(tier string, seed int64, outdir string, replay string) error {
	w := emit.NewWriter(outdir, "C18", tier, seed)
	defer w.Close()
	mat := c18NewMat()
	skipped := 0
	groundTruthOK, groundTruthDetail := true, ""

	one := func(class string, spec c18Spec) {
		var ex *c18Exec
		for attempt := 0; attempt < 3; attempt++ {
			ex = mat.execute(spec)
			if !ex.boundary(50 * time.Millisecond) {
				break
			}
			ex = nil
		}
		if ex == nil {
			skipped++
			w.Hist("skipped_boundary")
			return
		}
		// generator ground truth agrees with the independent reading
		for _, it := range spec.Items {
			n, ok := ex.before[it.Key]
			if !ok || n.Dir {
				continue
			}
			c := c18Classify(n.Val)
			bad := false
			// expected NotAfter of the deciding (first) certificate: x509 times have second precision
			want := func(off int64) *big.Int {
				return c18UnixNs(ex.started.Add(time.Duration(off) * time.Second).Truncate(time.Second))
			}
			switch it.Kind {
			case "bundle":
				switch it.Text {
				case "key+leaf":
					bad = c.Cert != nil
				case "int+leaf":
					bad = c.Cert == nil || c.Cert.Cmp(want(it.Off2)) != 0
				default:
					bad = c.Cert == nil || c.Cert.Cmp(want(it.Off)) != 0
				}
			case "cert":
				bad = c.Cert == nil || c.Cert.Cmp(want(it.Off)) != 0
			case "staple", "staple0":
				bad = c.Staple == nil || c.Cert != nil
			case "lastclean_multi":
				bad = c.Clean == nil || c.Clean.Cmp(c18UnixNs(ex.started.Add(time.Duration(it.Off)*time.Second))) != 0
			case "lastclean", "lastclean_notls":
				bad = c.Clean == nil
			case "raw":
				if it.Text == "@capem" {
					bad = c.Cert == nil || c.Staple != nil
				} else {
					bad = c.Cert != nil || c.Staple != nil
				}
			}
			if bad {
				groundTruthOK = false
				groundTruthDetail = fmt.Sprintf("%s (%s %q) read as %+v", it.Key, it.Kind, it.Text, c)
			}
		}
		wire, obs, feats := ex.encode()
		del := len(obs["deleted"].([]string))
		// non-trivial: something was deleted and something in the cleaned namespaces survived, or
		// deletable material was left alone because of a skip / abort / option
		survivors := 0
		for k, n := range ex.after {
			if !n.Dir && (strings.HasPrefix(k, "certificates/") || strings.HasPrefix(k, "ocsp/")) {
				survivors++
			}
		}
		nontrivial := (del > 0 && survivors > 0) || (del == 0 && survivors > 0 && len(ex.trace) >= 3)
		// a foreign Store that fell between a read of the cleaner and the Delete based on it (judged on the
		// calls the cleaner actually made)
		race, nForeign := false, 0
		for i := range spec.Runs {
			var own []c18Event
			for _, ev := range ex.trace {
				if ev.Tid == i {
					own = append(own, ev)
				}
			}
			for _, fo := range ex.fops[i] {
				nForeign++
				if !fo.Del && !fo.Dir && c18RaceWindow(own, fo.At, fo.Key) {
					race = true
				}
			}
		}
		killedAny, partialAny := false, false
		for _, r := range ex.runs {
			if r.Killed > 0 {
				killedAny = true
			}
			if len(r.Kept) > 0 {
				partialAny = true
			}
		}
		desc := map[string]any{"class": class, "backend": spec.Backend, "runs": len(spec.Runs), "concurrent": spec.Concurrent,
			"foreign_ops": nForeign, "race_window": race, "killed": killedAny, "partial_delete": partialAny}
		if killedAny {
			w.Hist("killed=true")
		}
		if partialAny {
			w.Hist("partial_delete=true")
		}
		if nForeign > 0 {
			w.Hist(fmt.Sprintf("foreign_race_window=%v", race))
		}
		for k, v := range feats {
			desc[k] = v
			w.Hist(k + "=" + v)
		}
		w.Hist("backend=" + spec.Backend)
		for _, r := range ex.runs {
			rs := spec.Runs[r.Tid]
			w.Hist(fmt.Sprintf("result=%d", r.Res))
			w.Hist(fmt.Sprintf("opts=ocsp:%v,certs:%v", rs.OCSP, rs.Certs))
			w.Hist("grace=" + time.Duration(rs.Grace).String())
		}
		w.Add(emit.Case{Desc: desc, In: spec, Obs: obs, Wire: wire, Nontrivial: nontrivial})
	}

	if replay != "" {
		rc, err := loadReplay(replay)
		if err != nil {
			return err
		}
		var spec c18Spec
		if err := json.Unmarshal(rc.In, &spec); err != nil {
			return err
		}
		class, _ := rc.Desc["class"].(string)
		one(class, spec)
		return nil
	}

	for _, c := range c18Corpus() {
		if c.class == "corpus_concurrent_fs" && tier != "thorough" && seed%4 != 1 {
			continue // ~1 s of lock polling: every fourth seed in the quick tier
		}
		one(c.class, c.spec)
	}
	n := 400
	if tier == "thorough" {
		n = 4000
	}
	g := &c18Gen{r: rand.New(rand.NewSource(seed))}
	for i := 0; i < n; i++ {
		sp := g.spec(w.Hist)
		if len(sp.Runs[0].Faults) == 0 && sp.Runs[0].Cancel < 0 && !sp.Concurrent && g.r.Intn(3) == 0 {
			// a fault (or the cancellation) aimed at a call of a chosen kind of the fault-free execution
			dry := mat.execute(sp)
			var own []c18Event
			for _, ev := range dry.trace {
				if ev.Tid == 0 {
					own = append(own, ev)
				}
			}
			byKind := map[int][]int{}
			var kinds []int
			listed := map[string]bool{}
			for j, ev := range own {
				k := ev.Kind
				// finer kinds where the code branches on the outcome: 7 = Delete of an emptied site folder (follows
				// its Stat), 8 = second listing of a site folder, 9 = Delete of X.key / X.json (follows a Delete)
				switch {
				case k == 5 && j > 0 && own[j-1].Kind == 4:
					k = 7
				case k == 3 && listed[ev.Key]:
					k = 8
				case k == 5 && j > 0 && own[j-1].Kind == 5:
					k = 9
				}
				if ev.Kind == 3 {
					listed[ev.Key] = true
				}
				if len(byKind[k]) == 0 {
					kinds = append(kinds, k)
					if k == 4 || k >= 7 { // the rarer branch points three times as likely
						kinds = append(kinds, k, k)
					}
				}
				byKind[k] = append(byKind[k], j)
			}
			special := g.r.Intn(3)
			var dels []int
			for j, ev := range own {
				if ev.Kind == 5 {
					dels = append(dels, j)
				}
			}
			if special == 0 && sp.Backend == "fs" && len(own) >= 3 && len(sp.Runs) == 1 {
				// the process dies when one of its calls begins; the next cleaning follows after the lock went stale
				sp.Runs[0].Kill = 1 + g.r.Intn(len(own)-1)
				r2 := sp.Runs[0]
				r2.Kill, r2.Inst, r2.OCSP, r2.Certs = 0, "after-kill", true, true
				r2.Interval = []int64{0, 2 * int64(time.Hour)}[g.r.Intn(2)]
				sp.Runs = append(sp.Runs, r2)
				w.Hist("env=kill")
				kinds = nil
			} else if special == 1 && len(dels) > 0 {
				// a Delete that takes effect in part; prefer one whose key has something below it
				var deep []int
				for _, j := range dels {
					for _, it := range sp.Items {
						if strings.HasPrefix(it.Key, own[j].Key+"/") {
							deep = append(deep, j)
							break
						}
					}
				}
				if len(deep) > 0 {
					dels = deep
					w.Hist("env=pfault:folder")
				} else {
					w.Hist("env=pfault:file")
				}
				sp.Runs[0].PFaults = []int{dels[g.r.Intn(len(dels))]}
				kinds = nil
			}
			if len(kinds) > 0 {
				k := kinds[g.r.Intn(len(kinds))]
				at := byKind[k][g.r.Intn(len(byKind[k]))]
				name := []string{"Lock", "Unlock", "Load", "List", "Stat", "Delete", "Store", "FolderDelete", "SecondList", "RelatedDelete"}[k]
				if g.r.Intn(4) == 0 && at > 0 {
					sp.Runs[0].Cancel = at
					w.Hist("env=aimed_cancel:" + name)
				} else if (k == 5 || k == 6 || k == 7 || k == 9) && g.r.Intn(2) == 0 {
					sp.Runs[0].EFaults = []int{at} // the call takes effect, then reports an error
					w.Hist("env=aimed_efault:" + name)
				} else {
					sp.Runs[0].Faults = []int{at}
					w.Hist("env=aimed_fault:" + name)
				}
			}
		}
		if !sp.Concurrent && len(sp.Runs) <= 2 && g.r.Intn(3) == 0 {
			// other actors write during a cleaning (the only one, or one of two that follow each other): place
			// them at calls of the interference-free execution of that cleaning
			dry := mat.execute(sp)
			ri := g.r.Intn(len(sp.Runs))
			var own []c18Event
			for _, ev := range dry.trace {
				if ev.Tid == ri {
					own = append(own, ev)
				}
			}
			g.foreign(&sp, ri, own, w.Hist)
			if len(sp.Runs[ri].Fops) > 0 {
				w.Hist(fmt.Sprintf("foreign_in_run=%d/%d", ri+1, len(sp.Runs)))
				one("generated_foreign", sp)
				continue
			}
		}
		one("generated", sp)
	}
	w.Meta.Rule = "cases in which a cleaning deleted something while other certificate/staple keys survived, or left deletable-looking material alone (skip, abort, option off); distinct wire lines"
	w.Meta.Oracles = append(w.Meta.Oracles, emit.OracleCheck{
		Name: "generator ground truth = independent reading (pem/x509, ocsp.ParseResponse, encoding/json) of every generated value", OK: groundTruthOK, Detail: groundTruthDetail})
	w.Meta.Extra = map[string]any{"skipped_boundary": skipped}
	_ = fs.ErrNotExist
	return nil
}
