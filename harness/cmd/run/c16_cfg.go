//go:build !skip_c16_cfg

package main

// C16: the solver set per issuer configuration (acmeclient.go newACMEClient): which challenge
// types get a solver, how it is layered (solverWrapper, distributedSolver with the issuer's prefix)
// and on which address the listener solvers listen (ListenHost, AltHTTPPort / AltTLSALPNPort, the
// package variables HTTPPort / HTTPSPort). The whole grid below is enumerated on every run.

import (
	"fmt"
	"sort"

	"github.com/caddyserver/certmagic"
	"go.uber.org/zap"

	"verifharness/pkg/doubles"
	"verifharness/pkg/emit"
)

type c16Cfg struct {
	DNS         bool   `json:"dns_solver"`
	DisableHTTP bool   `json:"disable_http"`
	DisableALPN bool   `json:"disable_tlsalpn"`
	ListenHost  string `json:"listen_host"`
	AltHTTP     int    `json:"alt_http_port"`
	AltALPN     int    `json:"alt_tlsalpn_port"`
	HTTPPort    int    `json:"pkg_http_port"`
	HTTPSPort   int    `json:"pkg_https_port"`
}

type c16SolverObs struct {
	Type        string `json:"type"`
	Wrapped     bool   `json:"wrapped"`
	Distributed bool   `json:"distributed"`
	Kind        string `json:"kind"`
	Prefix      string `json:"prefix"`
	Address     string `json:"address"`
}

func (e *c16Env) runCfg(w *emit.Writer, c c16Cfg, desc map[string]any) error {
	oldH, oldS := certmagic.HTTPPort, certmagic.HTTPSPort
	certmagic.HTTPPort, certmagic.HTTPSPort = c.HTTPPort, c.HTTPSPort
	defer func() { certmagic.HTTPPort, certmagic.HTTPSPort = oldH, oldS }()
	tmpl := certmagic.ACMEIssuer{CA: c16CA, Email: "x@example.com", Agreed: true, Logger: zap.NewNop(),
		DisableHTTPChallenge: c.DisableHTTP, DisableTLSALPNChallenge: c.DisableALPN, ListenHost: c.ListenHost, AltHTTPPort: c.AltHTTP, AltTLSALPNPort: c.AltALPN}
	if c.DNS {
		tmpl.DNS01Solver = &certmagic.DNS01Solver{DNSManager: certmagic.DNSManager{DNSProvider: &doubles.DNSProviderDouble{}}}
	}
	iss := certmagic.NewACMEIssuer(e.cfg, tmpl)
	set, err := certmagic.VerifChallengeSolvers(iss, false)
	if err != nil {
		return err
	}
	var types []string
	for t := range set {
		types = append(types, t)
	}
	sort.Strings(types)
	enc := &emit.Enc{}
	enc.Len(0).Len(0).Bool(false).Len(0).Len(0).Bool(false).Len(0).Len(0) // no history, no e2e items
	enc.Len(1)
	enc.Bool(c.DNS).Bool(c.DisableHTTP).Bool(c.DisableALPN).Str(c.ListenHost).Int(c.AltHTTP).Int(c.AltALPN).Int(c.HTTPPort).Int(c.HTTPSPort).Str(c15IssuerKeyOf(c16CA))
	enc.Len(len(types))
	var obs []c16SolverObs
	for _, t := range types {
		d := certmagic.VerifDescribeSolver(set[t])
		o := c16SolverObs{Type: t, Wrapped: d.Wrapped, Distributed: d.Distributed, Kind: d.Kind, Prefix: d.Prefix, Address: d.Address}
		obs = append(obs, o)
		ty := map[string]int{"http-01": 0, "tls-alpn-01": 1, "dns-01": 2}
		n, ok := ty[t]
		// a solver that is not wrapped, or whose innermost kind does not fit its challenge type, is of no known type
		if !ok || !d.Wrapped || d.Kind != map[string]string{"http-01": "http", "tls-alpn-01": "tlsalpn", "dns-01": "dns"}[t] {
			n = 3
		}
		enc.Int(n).Bool(d.Distributed).Str(d.Prefix).Str(d.Address)
	}
	for k, v := range desc {
		if s, ok := v.(string); ok {
			w.Hist(k + "=" + s)
		}
	}
	w.Hist(fmt.Sprintf("cfg_solvers=%d", len(types)))
	w.Add(emit.Case{Desc: desc, In: c16In{Cfg: &c}, Obs: obs, Wire: enc.String(), Nontrivial: true, Key: fmt.Sprintf("cfg %+v", c)})
	return nil
}

// c16CfgGrid enumerates the configurations.
func c16CfgGrid() []c16Cfg {
	var out []c16Cfg
	for _, dns := range []bool{false, true} {
		for _, dh := range []bool{false, true} {
			for _, da := range []bool{false, true} {
				for _, host := range []string{"", "127.0.0.1", "::1", "host.example"} {
					for _, ah := range []int{0, 5002, 80} {
						for _, aa := range []int{0, 5003} {
							for _, gh := range []int{0, 80, 8080} {
								for _, gs := range []int{443, 8443} {
									out = append(out, c16Cfg{dns, dh, da, host, ah, aa, gh, gs})
								}
							}
						}
					}
				}
			}
		}
	}
	return out
}
