//go:build !skip_c08

package main

// C08 — FileStorage.Lock / Unlock on a real directory against the timed FileLock model.
// Every case is a scenario: an initial lock file (possibly pre-made), threads (goroutines
// of this process = pid 0, or child processes = pid >= 1, the harness binary re-executed)
// that call Lock at planned instants, hold, unlock, get cancelled or get killed.  What is
// emitted is the script as it actually happened (measured instants) and, per thread, how
// and when Lock returned.  Scenarios run concurrently; each is dominated by the 1 s / 5 s /
// 10 s constants of the implementation.

import (
	"bufio"
	"context"
	"encoding/json"
	"errors"
	"fmt"
	"math/rand"
	"os"
	"os/exec"
	"path/filepath"
	"regexp"
	"sort"
	"strings"
	"sync"
	"syscall"
	"time"

	"github.com/caddyserver/certmagic"

	"verifharness/pkg/emit"
)

func init() { register("C08", runC08) }

type c08PreFile struct {
	Kind       string        `json:"kind"` // absent empty ws garbage truncated meta dir
	CreatedAge time.Duration `json:"created_age_ns,omitempty"`
	UpdatedAge time.Duration `json:"updated_age_ns,omitempty"`
	NoCreated  bool          `json:"no_created,omitempty"`
	NoUpdated  bool          `json:"no_updated,omitempty"`
	MtimeAge   time.Duration `json:"mtime_age_ns,omitempty"` // the file's modification time is set this long before the start
}

type c08Thread struct {
	Tid      int           `json:"tid"`
	Pid      int           `json:"pid"` // 0 = goroutine of the harness process
	Name     string        `json:"name"`
	StartAt  time.Duration `json:"start_at_ns"`
	HoldFor  time.Duration `json:"hold_for_ns"`  // < 0: hold until the scenario ends (or the process is killed)
	CancelAt time.Duration `json:"cancel_at_ns"` // 0: never; < 0: context already cancelled when Lock is called
}

type c08Kill struct {
	Pid int           `json:"pid"`
	At  time.Duration `json:"at_ns"`
}

// c08Crash stands for a process that calls Lock and dies between its O_EXCL create and the end of its
// metadata write (a window of microseconds that no SIGKILL can be aimed at): at the planned instant the
// harness itself creates the lock file exclusively and leaves it empty / with cut-off JSON / with garbage /
// as a directory. Nobody maintains that file.
type c08Crash struct {
	At   time.Duration `json:"at_ns"`
	Kind string        `json:"kind"` // empty truncated garbage dir
}

// c08Signal suspends (SIGSTOP) or resumes (SIGCONT) a child process.
type c08Signal struct {
	Pid  int           `json:"pid"`
	At   time.Duration `json:"at_ns"`
	Cont bool          `json:"cont,omitempty"`
}

type c08Scenario struct {
	Name    string        `json:"name"`
	Class   string        `json:"class"`
	Pre     c08PreFile    `json:"pre"`
	Threads []c08Thread   `json:"threads"`
	Kills   []c08Kill     `json:"kills,omitempty"`
	Signals []c08Signal   `json:"signals,omitempty"`
	Crashes []c08Crash    `json:"crashes,omitempty"`
	Horizon time.Duration `json:"horizon_ns"`
	// Gap > 0: the child processes run under `strace -e inject=ftruncate:delay_exit=Gap`, i.e. on
	// storage so slow that a heartbeat leaves the lock file empty for Gap between truncate and write
	Gap time.Duration `json:"gap_ns,omitempty"`
	Tol time.Duration `json:"tol_ns,omitempty"` // time tolerance of the comparison, default c08Tol
	// SlowRemove: these child processes (pid -> delay) run under `strace -e inject=unlinkat:delay_enter=...`:
	// their os.Remove calls take effect that much later (widens the window between a waiter's staleness
	// judgement and its removal of the lock file)
	SlowRemove map[int]time.Duration `json:"slow_remove_ns,omitempty"`
	// Trace: the child processes run under strace; their system calls on the lock file are compared
	// with the model's steps (case kind 2)
	Trace bool `json:"trace,omitempty"`
	// NamesClass != "": additionally emit the scenario as a names case of this class (no pre-made file)
	NamesClass string `json:"names_class,omitempty"`
}

type c08ThreadObs struct {
	Tid      int    `json:"tid"`
	Start    int64  `json:"start_ns"`
	Outcome  int    `json:"outcome"` // 0 acquired 1 ctx error 2 decode error 3 other -1 not returned within the horizon
	Ret      int64  `json:"ret_ns"`
	Unlock   int64  `json:"unlock_ns"` // 0: no Unlock call within the horizon
	ErrText  string `json:"err,omitempty"`
	started  bool
	returned bool
}

func c08Classify(err error) int {
	switch {
	case err == nil:
		return 0
	case errors.Is(err, context.Canceled), errors.Is(err, context.DeadlineExceeded):
		return 1
	case strings.Contains(err.Error(), "decoding lockfile contents"):
		return 2
	}
	return 3
}

type c08ChildSpec struct {
	Name     string `json:"name"`
	StartAt  int64  `json:"start_at"` // unix ns
	HoldMs   int64  `json:"hold_ms"`  // < 0 for ever
	Deadline int64  `json:"deadline"` // unix ns, 0 none
}

// c08Child is the body of a child process: one Lock / hold / Unlock, reporting instants.
func c08Child(dir, spec string) error {
	var sp c08ChildSpec
	if err := json.Unmarshal([]byte(spec), &sp); err != nil {
		return err
	}
	fs := &certmagic.FileStorage{Path: dir}
	ctx := context.Background()
	if sp.Deadline != 0 {
		var cancel context.CancelFunc
		ctx, cancel = context.WithDeadline(ctx, time.Unix(0, sp.Deadline))
		defer cancel()
	}
	time.Sleep(time.Until(time.Unix(0, sp.StartAt)))
	out := bufio.NewWriter(os.Stdout)
	say := func(f string, a ...any) { fmt.Fprintf(out, f, a...); out.Flush() }
	say("S %d\n", time.Now().UnixNano())
	err := fs.Lock(ctx, sp.Name)
	say("R %d %d\n", c08Classify(err), time.Now().UnixNano())
	if err != nil {
		return nil
	}
	if sp.HoldMs < 0 {
		select {} // until killed
	}
	time.Sleep(time.Duration(sp.HoldMs) * time.Millisecond)
	say("U %d\n", time.Now().UnixNano())
	fs.Unlock(context.Background(), sp.Name)
	// let the heartbeat goroutine see the file gone; not needed for correctness
	return nil
}

type c08Result struct {
	Sc       c08Scenario
	Base     time.Time
	Obs      map[int]*c08ThreadObs
	KillAt   map[int]int64 // pid -> measured
	SigAt    []int64       // measured instants of Sc.Signals (0 = not delivered)
	CrashAt  []int64       // measured instants of Sc.Crashes (0 = not yet)
	Traces   map[int][]int // pid -> system calls on the lock file (codes of c08ParseTrace)
	TraceTxt map[int][]string
	PreAbs   [2]int64      // created, updated relative to base (ns), for meta files
	Skipped  string
	Early    bool
	Horizon  time.Duration // effective: the planned one, or the instant the scenario was complete
	Duration time.Duration
}

func c08WritePre(fs *certmagic.FileStorage, name string, pre c08PreFile, base time.Time) ([2]int64, error) {
	var rel [2]int64
	if pre.Kind == "absent" {
		return rel, nil
	}
	fn := certmagic.VerifLockFilename(fs, name)
	if err := os.MkdirAll(filepath.Dir(fn), 0o700); err != nil {
		return rel, err
	}
	mt := base.Add(-pre.MtimeAge)
	if pre.Kind == "dir" { // something that is not a regular file sits at the lock file's path
		if err := os.Mkdir(fn, 0o755); err != nil {
			return rel, err
		}
		return rel, os.Chtimes(fn, mt, mt)
	}
	var content string
	switch pre.Kind {
	case "empty":
		content = ""
	case "ws":
		content = "\n  \n"
	case "garbage":
		content = "hello, this is not json\n"
	case "truncated":
		content = `{"created":"2026-09-2`
	case "meta":
		m := map[string]any{}
		if !pre.NoCreated {
			t := base.Add(-pre.CreatedAge)
			m["created"] = t
			rel[0] = -int64(pre.CreatedAge)
		}
		if !pre.NoUpdated {
			t := base.Add(-pre.UpdatedAge)
			m["updated"] = t
			rel[1] = -int64(pre.UpdatedAge)
		}
		b, _ := json.Marshal(m)
		content = string(b) + "\n"
	}
	if err := os.WriteFile(fn, []byte(content), 0o644); err != nil {
		return rel, err
	}
	return rel, os.Chtimes(fn, mt, mt)
}

// c08Run executes one scenario against the real code.
func c08Run(tmproot string, sc c08Scenario) (*c08Result, error) {
	if sc.Pre.Kind == "" {
		sc.Pre.Kind = "absent"
	}
	dir, err := os.MkdirTemp(tmproot, "sc")
	if err != nil {
		return nil, err
	}
	defer os.RemoveAll(dir)
	fs := &certmagic.FileStorage{Path: dir}
	res := &c08Result{Sc: sc, Obs: map[int]*c08ThreadObs{}, KillAt: map[int]int64{}}
	var mu sync.Mutex
	for _, th := range sc.Threads {
		res.Obs[th.Tid] = &c08ThreadObs{Tid: th.Tid, Outcome: -1}
	}
	t00 := time.Now()
	base := time.Now().Add(80 * time.Millisecond) // children need a moment to start
	res.Base = base
	names := map[string]bool{}
	for _, th := range sc.Threads {
		names[th.Name] = true
	}
	for n := range names {
		rel, err := c08WritePre(fs, n, sc.Pre, base)
		if err != nil {
			return nil, err
		}
		res.PreAbs = rel
	}
	rel := func(t time.Time) int64 { return int64(t.Sub(base)) }
	endCtx, endAll := context.WithCancel(context.Background())
	var wg sync.WaitGroup
	var cmds = map[int]*exec.Cmd{}
	var traced []int
	exited := make(chan int, len(sc.Threads))
	for _, th := range sc.Threads {
		th := th
		o := res.Obs[th.Tid]
		if th.Pid == 0 {
			wg.Add(1)
			go func() {
				defer wg.Done()
				ctx := endCtx
				var cancel context.CancelFunc
				switch {
				case th.CancelAt < 0:
					ctx, cancel = context.WithCancel(ctx)
					cancel()
				case th.CancelAt > 0:
					ctx, cancel = context.WithDeadline(ctx, base.Add(th.CancelAt))
					defer cancel()
				}
				time.Sleep(time.Until(base.Add(th.StartAt)))
				t0 := time.Now()
				mu.Lock()
				o.Start, o.started = rel(t0), true
				mu.Unlock()
				err := fs.Lock(ctx, th.Name)
				t1 := time.Now()
				if endCtx.Err() != nil && err != nil {
					return // released by the end of the scenario, not an observation
				}
				mu.Lock()
				o.Outcome, o.Ret, o.returned = c08Classify(err), rel(t1), true
				if err != nil {
					o.ErrText = err.Error()
				}
				mu.Unlock()
				if err != nil {
					return
				}
				if th.HoldFor >= 0 {
					select {
					case <-time.After(th.HoldFor):
						mu.Lock()
						o.Unlock = rel(time.Now())
						mu.Unlock()
					case <-endCtx.Done():
					}
				} else {
					<-endCtx.Done()
				}
				fs.Unlock(context.Background(), th.Name)
			}()
			continue
		}
		sp := c08ChildSpec{Name: th.Name, StartAt: base.Add(th.StartAt).UnixNano(), HoldMs: int64(th.HoldFor / time.Millisecond)}
		if th.HoldFor < 0 {
			sp.HoldMs = -1
		}
		if th.CancelAt > 0 {
			sp.Deadline = base.Add(th.CancelAt).UnixNano()
		}
		b, _ := json.Marshal(sp)
		cmd := exec.Command(os.Args[0], "C08", "child", "0", dir, string(b))
		if sc.Gap > 0 {
			cmd = exec.Command("strace", "-f", "-o", "/dev/null", "-e", "trace=ftruncate", "-e",
				fmt.Sprintf("inject=ftruncate:delay_exit=%d", sc.Gap.Microseconds()), os.Args[0], "C08", "child", "0", dir, string(b))
		} else if d := sc.SlowRemove[th.Pid]; d > 0 {
			cmd = exec.Command("strace", "-f", "-o", "/dev/null", "-e", "trace=unlink,unlinkat", "-e",
				fmt.Sprintf("inject=unlink,unlinkat:delay_enter=%d", d.Microseconds()), os.Args[0], "C08", "child", "0", dir, string(b))
		} else if sc.Trace {
			cmd = exec.Command("strace", "-f", "-o", filepath.Join(dir, fmt.Sprintf("trace.%d", th.Pid)), "-e",
				"trace=openat,open,creat,read,write,ftruncate,truncate,fsync,fdatasync,close,unlink,unlinkat,rename,renameat,renameat2",
				os.Args[0], "C08", "child", "0", dir, string(b))
			traced = append(traced, th.Pid)
		}
		pr, err := cmd.StdoutPipe()
		if err != nil {
			endAll()
			return nil, err
		}
		cmd.Stderr = nil
		if err := cmd.Start(); err != nil {
			endAll()
			return nil, err
		}
		cmds[th.Pid] = cmd
		wg.Add(1)
		go func() {
			defer wg.Done()
			sc := bufio.NewScanner(pr)
			for sc.Scan() {
				var a, b int64
				ln := sc.Text()
				mu.Lock()
				switch {
				case strings.HasPrefix(ln, "S "):
					fmt.Sscanf(ln, "S %d", &a)
					o.Start, o.started = a-base.UnixNano(), true
				case strings.HasPrefix(ln, "R "):
					fmt.Sscanf(ln, "R %d %d", &a, &b)
					o.Outcome, o.Ret, o.returned = int(a), b-base.UnixNano(), true
				case strings.HasPrefix(ln, "U "):
					fmt.Sscanf(ln, "U %d", &a)
					o.Unlock = a - base.UnixNano()
				}
				mu.Unlock()
			}
			cmd.Wait()
			exited <- th.Pid
		}()
	}
	for _, k := range sc.Kills {
		k := k
		wg.Add(1)
		go func() {
			defer wg.Done()
			select {
			case <-time.After(time.Until(base.Add(k.At))):
			case <-endCtx.Done():
				return
			}
			mu.Lock()
			res.KillAt[k.Pid] = rel(time.Now())
			mu.Unlock()
			if c := cmds[k.Pid]; c != nil {
				c.Process.Kill()
			}
		}()
	}
	res.CrashAt = make([]int64, len(sc.Crashes))
	for i, cr := range sc.Crashes {
		i, cr := i, cr
		wg.Add(1)
		go func() {
			defer wg.Done()
			select {
			case <-time.After(time.Until(base.Add(cr.At))):
			case <-endCtx.Done():
				return
			}
			fn := certmagic.VerifLockFilename(fs, sc.Threads[0].Name)
			os.MkdirAll(filepath.Dir(fn), 0o700)
			t := time.Now()
			if cr.Kind == "dir" {
				os.Mkdir(fn, 0o755)
			} else if f, err := os.OpenFile(fn, os.O_CREATE|os.O_WRONLY|os.O_EXCL, 0o644); err == nil {
				switch cr.Kind {
				case "truncated":
					f.WriteString(`{"created":"2026-10-0`)
				case "garbage":
					f.WriteString("\x00\x00 not json\n")
				}
				f.Close()
			}
			mu.Lock()
			res.CrashAt[i] = rel(t)
			if res.CrashAt[i] == 0 {
				res.CrashAt[i] = 1
			}
			mu.Unlock()
		}()
	}
	res.SigAt = make([]int64, len(sc.Signals))
	for i, sg := range sc.Signals {
		i, sg := i, sg
		wg.Add(1)
		go func() {
			defer wg.Done()
			select {
			case <-time.After(time.Until(base.Add(sg.At))):
			case <-endCtx.Done():
				return
			}
			if c := cmds[sg.Pid]; c != nil {
				sig := syscall.SIGSTOP
				if sg.Cont {
					sig = syscall.SIGCONT
				}
				t := time.Now()
				c.Process.Signal(sig)
				mu.Lock()
				res.SigAt[i] = rel(t)
				if res.SigAt[i] == 0 {
					res.SigAt[i] = 1
				}
				mu.Unlock()
			}
		}()
	}
	// the scenario ends at the horizon, or earlier once every thread has returned and every
	// planned unlock / kill / signal has happened
	deadline := base.Add(sc.Horizon)
	res.Horizon = sc.Horizon
	for time.Now().Before(deadline) {
		time.Sleep(20 * time.Millisecond)
		mu.Lock()
		done := len(res.KillAt) == len(sc.Kills)
		for _, t := range res.SigAt {
			if t == 0 {
				done = false
			}
		}
		for _, t := range res.CrashAt {
			if t == 0 {
				done = false
			}
		}
		for _, th := range sc.Threads {
			o := res.Obs[th.Tid]
			if !o.returned {
				if _, killed := res.KillAt[th.Pid]; !killed || !o.started {
					done = false
				}
			} else if o.Outcome == 0 && th.HoldFor >= 0 && o.Unlock == 0 {
				if _, killed := res.KillAt[th.Pid]; !killed {
					done = false
				}
			}
		}
		mu.Unlock()
		if done {
			break
		}
	}
	end := time.Now()
	if end.Before(deadline) {
		// finished early: observations are complete; the model may look a little further
		res.Horizon = end.Sub(base) // the planned horizon stays in Sc (a replay runs the plan again)
		res.Early = true
	}
	endAll()
	if len(traced) > 0 {
		// let the traced children finish by themselves so that their traces are complete
		grace := time.After(2500 * time.Millisecond)
	waitTraced:
		for n := 0; n < len(cmds); n++ {
			select {
			case <-exited:
			case <-grace:
				break waitTraced
			}
		}
	}
	for _, c := range cmds {
		c.Process.Kill()
	}
	wg.Wait()
	for _, pid := range traced {
		codes, txt, err := c08ParseTrace(filepath.Join(dir, fmt.Sprintf("trace.%d", pid)), dir)
		if err != nil {
			return nil, err
		}
		if res.Traces == nil {
			res.Traces, res.TraceTxt = map[int][]int{}, map[int][]string{}
		}
		res.Traces[pid], res.TraceTxt[pid] = codes, txt
	}
	res.Duration = time.Since(t00)
	// a thread that started much later than planned makes the planned margins meaningless
	for _, th := range sc.Threads {
		o := res.Obs[th.Tid]
		if o.started && (o.Start-int64(th.StartAt) > int64(150*time.Millisecond) || o.Start < int64(th.StartAt)-int64(5*time.Millisecond)) {
			res.Skipped = fmt.Sprintf("thread %d started %.0f ms off plan", th.Tid, float64(o.Start-int64(th.StartAt))/1e6)
		}
		if !o.started {
			if _, killed := res.KillAt[th.Pid]; !killed && int64(th.StartAt) < int64(res.Horizon) {
				res.Skipped = fmt.Sprintf("thread %d never started", th.Tid)
			}
		}
	}
	return res, nil
}

// c08ParseTrace projects an strace output to the system calls that touch a lock file below root:
// 1 open O_CREAT|O_EXCL ok, 2 the same failing with EEXIST, 3 write, 4 fsync, 5 close, 6 open O_RDWR ok,
// 7 read(s) (consecutive reads count once), 8 ftruncate, 9 unlink ok, 10 open read-only ok,
// 11 open read-only failing ENOENT, 12 open O_RDWR failing ENOENT, 13 any other way of opening it for
// writing or creating it (O_TRUNC, O_CREAT without O_EXCL, O_APPEND), 14 rename from / onto it,
// 15 unlink failing ENOENT, 16 truncate by name.
func c08ParseTrace(file, root string) ([]int, []string, error) {
	raw, err := os.ReadFile(file)
	if err != nil {
		return nil, nil, err
	}
	reUnf := regexp.MustCompile(`^(\d+)\s+(\w+)\((.*) <unfinished \.\.\.>$`)
	reRes := regexp.MustCompile(`^(\d+)\s+<\.\.\. (\w+) resumed>(.*)$`)
	reCall := regexp.MustCompile(`^\d+\s+(\w+)\((.*)\)\s+= (-?\d+)(.*)$`)
	pending := map[string]string{}
	var lines []string
	for _, ln := range strings.Split(string(raw), "\n") {
		if m := reUnf.FindStringSubmatch(ln); m != nil {
			pending[m[1]] = m[1] + " " + m[2] + "(" + m[3]
			continue
		}
		if m := reRes.FindStringSubmatch(ln); m != nil {
			if p, ok := pending[m[1]]; ok {
				delete(pending, m[1])
				lines = append(lines, p+m[3])
			}
			continue
		}
		lines = append(lines, ln)
	}
	lockDir := filepath.Join(root, "locks") + "/"
	isLock := func(args string) bool { return strings.Contains(args, `"`+lockDir) && strings.Contains(args, `.lock"`) }
	fds := map[string]bool{}
	var codes []int
	var kept []string
	add := func(c int, ln string) {
		if c == 7 && len(codes) > 0 && codes[len(codes)-1] == 7 {
			return
		}
		codes = append(codes, c)
		kept = append(kept, strings.Replace(ln, root, "<root>", -1))
	}
	for _, ln := range lines {
		m := reCall.FindStringSubmatch(ln)
		if m == nil {
			continue
		}
		name, args, ret, tail := m[1], m[2], m[3], m[4]
		fd := strings.TrimSpace(strings.SplitN(args, ",", 2)[0])
		switch name {
		case "openat", "open", "creat":
			if !isLock(args) {
				continue
			}
			creat, excl := strings.Contains(args, "O_CREAT") || name == "creat", strings.Contains(args, "O_EXCL")
			trunc, app := strings.Contains(args, "O_TRUNC") || name == "creat", strings.Contains(args, "O_APPEND")
			rdwr, wr := strings.Contains(args, "O_RDWR"), strings.Contains(args, "O_WRONLY")
			ok := ret != "-1"
			switch {
			case creat && excl && !trunc && !app:
				if ok {
					add(1, ln)
				} else if strings.Contains(tail, "EEXIST") {
					add(2, ln)
				} else {
					add(13, ln)
				}
			case creat || trunc || app || wr:
				add(13, ln)
			case rdwr:
				if ok {
					add(6, ln)
				} else {
					add(12, ln)
				}
			default:
				if ok {
					add(10, ln)
				} else {
					add(11, ln)
				}
			}
			if ok {
				fds[ret] = true
			}
		case "write":
			if fds[fd] {
				add(3, ln)
			}
		case "read":
			if fds[fd] {
				add(7, ln)
			}
		case "fsync", "fdatasync":
			if fds[fd] {
				add(4, ln)
			}
		case "ftruncate":
			if fds[fd] {
				add(8, ln)
			}
		case "close":
			if fds[fd] {
				delete(fds, fd)
				add(5, ln)
			}
		case "unlink", "unlinkat":
			if isLock(args) {
				if ret == "0" {
					add(9, ln)
				} else {
					add(15, ln)
				}
			}
		case "rename", "renameat", "renameat2":
			if isLock(args) {
				add(14, ln)
			}
		case "truncate":
			if isLock(args) {
				add(16, ln)
			}
		}
	}
	return codes, kept, nil
}

const (
	c08Tol = 450 * time.Millisecond
	c08Jit = 60 * time.Millisecond
	// a Lock call that is not blocked returns well within this; a blocked one waits at least
	// fileLockPollInterval (1 s)
	c08Prompt = 800 * time.Millisecond
)

// c08Emit writes one case per lock file of the scenario.
func c08Emit(w *emit.Writer, res *c08Result) {
	sc := res.Sc
	if res.Skipped != "" {
		w.Hist("skipped_boundary")
		w.Meta.Notes = append(w.Meta.Notes, sc.Name+": skipped: "+res.Skipped)
		return
	}
	fs := &certmagic.FileStorage{Path: "/r"}
	groups := map[string][]c08Thread{}
	var order []string
	for _, th := range sc.Threads {
		f := certmagic.VerifLockFilename(fs, th.Name)
		if _, ok := groups[f]; !ok {
			order = append(order, f)
		}
		groups[f] = append(groups[f], th)
	}
	hz := int64(res.Horizon)
	for gi, f := range order {
		ths := groups[f]
		type ev struct {
			T       int64 `json:"t_ns"`
			K, A, B int
		}
		var evs []ev
		pids := map[int]bool{}
		var obs []c08ThreadObs
		for _, th := range ths {
			o := *res.Obs[th.Tid]
			pids[th.Pid] = true
			if !o.started || o.Start > hz {
				continue
			}
			if th.CancelAt < 0 {
				evs = append(evs, ev{o.Start - 1, 3, th.Tid, 0})
			} else if th.CancelAt > 0 && int64(th.CancelAt) <= hz {
				evs = append(evs, ev{int64(th.CancelAt), 3, th.Tid, 0})
			}
			evs = append(evs, ev{o.Start, 0, th.Tid, th.Pid})
			if o.Unlock != 0 && o.Unlock <= hz {
				evs = append(evs, ev{o.Unlock, 1, th.Tid, 0})
			}
			if !o.returned || o.Ret > hz {
				o.Outcome, o.Ret = -1, 0
			}
			obs = append(obs, o)
		}
		for pid, t := range res.KillAt {
			if pids[pid] && t <= hz {
				evs = append(evs, ev{t, 2, pid, 0})
			}
		}
		for i, sg := range sc.Signals {
			if t := res.SigAt[i]; pids[sg.Pid] && t != 0 && t <= hz {
				k := 4
				if sg.Cont {
					k = 5
				}
				evs = append(evs, ev{t, k, sg.Pid, 0})
			}
		}
		if gi == 0 { // the crashed creators use the name of the first thread
			for i, cr := range sc.Crashes {
				if t := res.CrashAt[i]; t != 0 && t <= hz {
					g := 0
					if cr.Kind != "empty" {
						g = 1
					}
					evs = append(evs, ev{t, 6, 90 + i, 2*(90+i) + g})
				}
			}
		}
		sort.SliceStable(evs, func(i, j int) bool { return evs[i].T < evs[j].T })
		e := &emit.Enc{}
		e.Int(0) // case kind 0: one lock file of a scenario
		switch sc.Pre.Kind {
		case "absent":
			e.Int(0)
		case "empty", "ws":
			e.Int(1).Z(-int64(sc.Pre.MtimeAge))
		case "garbage", "truncated", "dir":
			e.Int(2).Z(-int64(sc.Pre.MtimeAge))
		case "meta":
			e.Int(3)
			if sc.Pre.NoCreated {
				e.Bool(false)
			} else {
				e.Bool(true).Z(res.PreAbs[0])
			}
			if sc.Pre.NoUpdated {
				e.Bool(false)
			} else {
				e.Bool(true).Z(res.PreAbs[1])
			}
			e.Z(-int64(sc.Pre.MtimeAge))
		}
		e.Len(len(evs))
		for _, x := range evs {
			e.Z(x.T).Int(x.K).Int(x.A).Int(x.B)
		}
		mh := hz
		if res.Early {
			mh = hz + int64(2*time.Second)
		}
		tol := c08Tol
		if sc.Tol > 0 {
			tol = sc.Tol
		}
		e.Z(mh).Z(int64(tol)).Z(int64(c08Jit)).Z(int64(sc.Gap))
		var slow []int
		for pid := range sc.SlowRemove {
			if pids[pid] {
				slow = append(slow, pid)
			}
		}
		sort.Ints(slow)
		e.Len(len(slow))
		for _, pid := range slow {
			e.Int(pid).Z(int64(sc.SlowRemove[pid]))
		}
		e.Len(len(obs))
		for _, o := range obs {
			e.Int(o.Tid).Int(o.Outcome).Z(o.Ret)
		}
		class := sc.Class
		if len(order) > 1 {
			class = fmt.Sprintf("%s/file%d", sc.Class, gi)
		}
		w.Hist("class=" + sc.Class)
		w.Hist("pre=" + sc.Pre.Kind)
		for _, o := range obs {
			w.Hist(fmt.Sprintf("outcome=%d", o.Outcome))
		}
		nt := len(obs) >= 2 || sc.Pre.Kind != "absent"
		w.Add(emit.Case{Desc: map[string]any{"kind": "scenario", "class": class, "scenario": sc.Name, "wall_s": res.Duration.Seconds()},
			In: sc, Obs: map[string]any{"threads": obs, "kills_ns": res.KillAt, "events": evs, "horizon_ns": hz},
			Wire: e.String(), Nontrivial: nt, Key: sc.Name + fmt.Sprint(gi)})
		// case kind 2: the system calls of each traced process on this lock file against the model's steps
		var tpids []int
		for pid := range res.Traces {
			if pids[pid] {
				tpids = append(tpids, pid)
			}
		}
		sort.Ints(tpids)
		for _, pid := range tpids {
			t := &emit.Enc{}
			t.Int(pid).Len(len(res.Traces[pid]))
			for _, c := range res.Traces[pid] {
				t.Int(c)
			}
			w.Hist("class=syscall-trace")
			w.Add(emit.Case{Desc: map[string]any{"kind": "syscalls", "class": "syscall-trace", "scenario": sc.Name, "pid": pid},
				In: sc, Obs: map[string]any{"pid": pid, "codes": res.Traces[pid], "strace": res.TraceTxt[pid], "events": evs},
				Wire: "2 " + strings.TrimPrefix(e.String(), "0 ") + " " + t.String(), Nontrivial: true, Key: fmt.Sprint(sc.Name, "/trace/", pid)})
		}
	}
	// case kind 1: "distinct names never block each other" over the whole scenario
	if sc.NamesClass != "" {
		e := &emit.Enc{}
		e.Int(1).Str("/r")
		type nobs struct {
			Tid     int    `json:"tid"`
			Name    string `json:"name"`
			File    string `json:"lock_file"`
			Start   int64  `json:"start_ns"`
			Outcome int    `json:"outcome"`
			Ret     int64  `json:"ret_ns"`
		}
		var ns []nobs
		for _, th := range sc.Threads {
			o := res.Obs[th.Tid]
			if !o.started || o.Start > hz {
				continue
			}
			out, ret := o.Outcome, o.Ret
			if !o.returned || o.Ret > hz {
				out, ret = -1, hz
			}
			ns = append(ns, nobs{th.Tid, th.Name, certmagic.VerifLockFilename(fs, th.Name), o.Start, out, ret})
		}
		e.Len(len(ns))
		blocked := 0
		for _, n := range ns {
			e.Str(n.Name).Str(n.File).Z(n.Start).Int(n.Outcome).Z(n.Ret)
			if n.Outcome != 0 || n.Ret-n.Start > int64(c08Prompt) {
				blocked++
			}
		}
		e.Z(int64(c08Prompt))
		w.Hist("class=" + sc.NamesClass)
		w.Hist(fmt.Sprintf("names_blocked_threads=%d", blocked))
		w.Add(emit.Case{Desc: map[string]any{"kind": "names", "class": sc.NamesClass, "scenario": sc.Name, "wall_s": res.Duration.Seconds()},
			In: sc, Obs: map[string]any{"threads": ns, "prompt_ns": int64(c08Prompt)},
			Wire: e.String(), Nontrivial: len(order) >= 2, Key: sc.Name + "/names"})
	}
}

// c08LongHost is a 180-character host name part (labels of 20 characters).
var c08LongHost = strings.TrimSuffix(strings.Repeat("a123456789bcdefghij.", 9), ".")

func c08ms(x int) time.Duration { return time.Duration(x) * time.Millisecond }

// decision table: one thread, a pre-made lock file, a context
func c08Table(r *rand.Rand, tier string) []c08Scenario {
	type ctxk struct {
		name string
		at   time.Duration
	}
	ctxs := []ctxk{{"deadline2400", c08ms(2400)}, {"cancelled", -1}}
	pres := []struct {
		name string
		p    c08PreFile
	}{
		{"absent", c08PreFile{Kind: "absent"}},
		{"fresh", c08PreFile{Kind: "meta", CreatedAge: c08ms(100), UpdatedAge: c08ms(100)}},
		{"updated-9.85s", c08PreFile{Kind: "meta", CreatedAge: c08ms(30000), UpdatedAge: c08ms(9850)}},
		{"updated-10.15s", c08PreFile{Kind: "meta", CreatedAge: c08ms(30000), UpdatedAge: c08ms(10150)}},
		{"zero-updated-old-created", c08PreFile{Kind: "meta", CreatedAge: c08ms(30000), NoUpdated: true}},
		{"zero-updated-new-created", c08PreFile{Kind: "meta", CreatedAge: c08ms(1000), NoUpdated: true}},
		{"no-times", c08PreFile{Kind: "meta", NoCreated: true, NoUpdated: true}},
		{"old-created-fresh-updated", c08PreFile{Kind: "meta", CreatedAge: c08ms(3600000), UpdatedAge: c08ms(4000)}},
		// a lock held (and refreshed) for hours or days: however old Created is, a current Updated keeps it
		{"created-3h-ago-fresh-updated", c08PreFile{Kind: "meta", CreatedAge: 3 * time.Hour, UpdatedAge: c08ms(300)}},
		{"created-3d-ago-fresh-updated", c08PreFile{Kind: "meta", CreatedAge: 72 * time.Hour, UpdatedAge: c08ms(300)}},
		{"empty-old", c08PreFile{Kind: "empty", MtimeAge: c08ms(30000)}},
		{"empty-just-modified", c08PreFile{Kind: "empty"}},
		{"whitespace-old", c08PreFile{Kind: "ws", MtimeAge: c08ms(11500)}},
		{"truncated-json", c08PreFile{Kind: "truncated", MtimeAge: c08ms(25000)}},
		{"garbage", c08PreFile{Kind: "garbage", MtimeAge: c08ms(12000)}},
		{"garbage-just-modified", c08PreFile{Kind: "garbage"}},
		{"directory-at-lock-path", c08PreFile{Kind: "dir", MtimeAge: c08ms(40000)}},
	}
	var out []c08Scenario
	add := func(name string, p c08PreFile, c ctxk) {
		out = append(out, c08Scenario{Name: "table/" + name + "/" + c.name, Class: "decision-table", Pre: p,
			Threads: []c08Thread{{Tid: 0, Pid: 0, Name: "Lock Name+1", StartAt: c08ms(20), HoldFor: -1, CancelAt: c.at}}, Horizon: c08ms(2900)})
	}
	for _, p := range pres {
		for _, c := range ctxs {
			add(p.name, p.p, c)
		}
	}
	// the lock files of dead holders again with a context that lives longer than the recovery bound: a
	// Lock that returns an error or still waits when the file has long been stale fails the recovery clause
	for _, p := range pres {
		switch p.name {
		case "updated-10.15s", "zero-updated-old-created", "no-times", "empty-old", "whitespace-old", "truncated-json", "garbage", "directory-at-lock-path":
			out = append(out, c08Scenario{Name: "table/" + p.name + "/deadline7000", Class: "decision-table", Pre: p.p,
				Threads: []c08Thread{{Tid: 0, Pid: 0, Name: "Lock Name+1", StartAt: c08ms(20), HoldFor: -1, CancelAt: c08ms(7000)}}, Horizon: c08ms(7400)})
		}
	}
	// shorter deadlines for the files that make Lock wait
	add("empty-old", c08PreFile{Kind: "empty", MtimeAge: c08ms(30000)}, ctxk{"deadline1300", c08ms(1300)})
	// an empty file modified 6.9 s ago: given up only when that becomes more than 10 s (3.15 s into the scenario)
	out = append(out, c08Scenario{Name: "table/empty-modified-6.9s-ago/deadline4500", Class: "decision-table", Pre: c08PreFile{Kind: "empty", MtimeAge: c08ms(6855)},
		Threads: []c08Thread{{Tid: 0, Pid: 0, Name: "Lock Name+1", StartAt: c08ms(20), HoldFor: -1, CancelAt: c08ms(4500)}}, Horizon: c08ms(5000)})
	add("fresh", c08PreFile{Kind: "meta", CreatedAge: c08ms(100), UpdatedAge: c08ms(100)}, ctxk{"deadline400", c08ms(400)})
	// random ages around the staleness threshold, kept away from the poll instants
	n := 10
	if tier == "thorough" {
		n = 60
	}
	for i := 0; i < n; i++ {
		var age int
		for {
			age = 7000 + r.Intn(5000)
			ok := true
			for k := 0; k <= 3; k++ { // polls at 0, 1, 2 s (+20 ms start offset)
				d := age + 20 + k*1000 - 10000
				if d > -130 && d < 130 {
					ok = false
				}
			}
			if ok {
				break
			}
		}
		add(fmt.Sprintf("updated-%dms", age), c08PreFile{Kind: "meta", CreatedAge: c08ms(60000), UpdatedAge: c08ms(age)}, ctxk{"deadline2400", c08ms(2400)})
	}
	return out
}

func c08Scenarios(tier string, r *rand.Rand) []c08Scenario {
	n := "issue_cert_example.com"
	long := time.Duration(25) * time.Second
	scs := []c08Scenario{
		{Name: "contention-release", Class: "contention",
			Threads: []c08Thread{{Tid: 0, Name: n, StartAt: 0, HoldFor: c08ms(3000)}, {Tid: 1, Name: n, StartAt: c08ms(400), HoldFor: c08ms(300), CancelAt: long}},
			Horizon: c08ms(5500)},
		// four heartbeats; a heartbeat that stops after its first or second refresh lets the waiter in at 15 / 20 s
		{Name: "long-hold-across-threshold", Class: "long-hold",
			Threads: []c08Thread{{Tid: 0, Name: n, StartAt: 0, HoldFor: c08ms(21300)}, {Tid: 1, Name: n, StartAt: c08ms(500), HoldFor: c08ms(200), CancelAt: long}},
			Horizon: c08ms(23500)},
		{Name: "kill-holder-before-first-heartbeat", Class: "kill-holder",
			Threads: []c08Thread{{Tid: 0, Pid: 1, Name: n, StartAt: c08ms(200), HoldFor: -1}, {Tid: 1, Name: n, StartAt: c08ms(750), HoldFor: c08ms(200), CancelAt: long}},
			Kills:   []c08Kill{{1, c08ms(2000)}}, Horizon: c08ms(24000)},
		{Name: "zombie-heartbeat", Class: "zombie-heartbeat",
			Threads: []c08Thread{{Tid: 0, Name: n, StartAt: 0, HoldFor: c08ms(200)}, {Tid: 1, Pid: 1, Name: n, StartAt: c08ms(600), HoldFor: -1},
				{Tid: 2, Name: n, StartAt: c08ms(1150), HoldFor: c08ms(200), CancelAt: long}},
			Kills: []c08Kill{{1, c08ms(1100)}}, Horizon: c08ms(26500)},
		// the zombie heartbeat again, with the second holder dying DURING its creation: A locks, unlocks and
		// stays alive (its heartbeat goroutine lingers until 5 s); a process takes the free lock at 0.6 s and
		// dies leaving the lock file empty / cut off / garbage / a directory; A's old heartbeat must not adopt
		// that file; the contender gets the lock when the file has not been modified for 10 s
		{Name: "zombie-heartbeat-empty-file", Class: "zombie-heartbeat-dead-creator", Crashes: []c08Crash{{c08ms(600), "empty"}},
			Threads: []c08Thread{{Tid: 0, Name: n, StartAt: 0, HoldFor: c08ms(200)}, {Tid: 2, Pid: 1, Name: n, StartAt: c08ms(1150), HoldFor: c08ms(200), CancelAt: long}},
			Horizon: c08ms(17000)},
		{Name: "zombie-heartbeat-truncated-file", Class: "zombie-heartbeat-dead-creator", Crashes: []c08Crash{{c08ms(600), "truncated"}},
			Threads: []c08Thread{{Tid: 0, Name: n, StartAt: 0, HoldFor: c08ms(200)}, {Tid: 2, Name: n, StartAt: c08ms(1150), HoldFor: c08ms(200), CancelAt: long}},
			Horizon: c08ms(17000)},
		{Name: "zombie-heartbeat-garbage-file", Class: "zombie-heartbeat-dead-creator", Crashes: []c08Crash{{c08ms(600), "garbage"}},
			Threads: []c08Thread{{Tid: 0, Name: n, StartAt: 0, HoldFor: c08ms(200)}, {Tid: 2, Name: n, StartAt: c08ms(1150), HoldFor: c08ms(200), CancelAt: long}},
			Horizon: c08ms(17000)},
		{Name: "zombie-heartbeat-directory", Class: "zombie-heartbeat-dead-creator", Crashes: []c08Crash{{c08ms(600), "dir"}},
			Threads: []c08Thread{{Tid: 0, Name: n, StartAt: 0, HoldFor: c08ms(200)}, {Tid: 2, Name: n, StartAt: c08ms(1150), HoldFor: c08ms(200), CancelAt: long}},
			Horizon: c08ms(17000)},
		{Name: "kill-holder-after-heartbeat", Class: "kill-holder",
			Threads: []c08Thread{{Tid: 0, Pid: 1, Name: n, StartAt: c08ms(200), HoldFor: -1}, {Tid: 1, Name: n, StartAt: c08ms(750), HoldFor: c08ms(200), CancelAt: long}},
			Kills:   []c08Kill{{1, c08ms(6500)}}, Horizon: c08ms(24000)},
		// two waiters give up (one cancelled while blocked, one with a dead context); a third arrives
		// afterwards and must still wait for the holder: giving up leaves the holder's lock alone
		{Name: "cancel-blocked-waiter", Class: "cancel",
			Threads: []c08Thread{{Tid: 0, Name: n, StartAt: 0, HoldFor: c08ms(3000)}, {Tid: 1, Name: n, StartAt: c08ms(300), HoldFor: c08ms(100), CancelAt: c08ms(1550)},
				{Tid: 2, Name: n, StartAt: c08ms(350), HoldFor: c08ms(100), CancelAt: -1}, {Tid: 3, Pid: 1, Name: n, StartAt: c08ms(1900), HoldFor: c08ms(100), CancelAt: long}},
			Horizon: c08ms(5000)},
		// the lock is released and nobody wants it for a while; a late arrival (after the releaser's
		// heartbeat goroutine has woken up once more) finds it free
		{Name: "late-arrival-after-release", Class: "free-lock",
			Threads: []c08Thread{{Tid: 0, Name: n, StartAt: 0, HoldFor: c08ms(700)}, {Tid: 1, Pid: 1, Name: n, StartAt: c08ms(6400), HoldFor: c08ms(200), CancelAt: long},
				{Tid: 2, Name: n, StartAt: c08ms(7300), HoldFor: c08ms(100), CancelAt: long}},
			Horizon: c08ms(9500)},
		{Name: "chain-of-waiters", Class: "contention",
			Threads: []c08Thread{{Tid: 0, Name: n, StartAt: 0, HoldFor: c08ms(2000)}, {Tid: 1, Name: n, StartAt: c08ms(250), HoldFor: c08ms(350), CancelAt: long},
				{Tid: 2, Name: n, StartAt: c08ms(500), HoldFor: c08ms(350), CancelAt: long}, {Tid: 3, Name: n, StartAt: c08ms(750), HoldFor: c08ms(350), CancelAt: long}},
			Horizon: c08ms(6000)},
		// names that Safe maps to one lock file block each other although they are distinct (known
		// finding C08-safe-collision); a-b and *.b have files of their own
		{Name: "names-safe-collision", Class: "names", NamesClass: "names-safe-collision",
			Threads: []c08Thread{{Tid: 0, Name: "a+b", StartAt: 0, HoldFor: c08ms(2500)}, {Tid: 1, Name: "a_plus_b", StartAt: c08ms(300), HoldFor: c08ms(100), CancelAt: c08ms(1500)},
				{Tid: 2, Name: "A_Plus_B ", StartAt: c08ms(350), HoldFor: c08ms(100), CancelAt: c08ms(1450)}, {Tid: 3, Name: "a-b", StartAt: c08ms(300), HoldFor: c08ms(100), CancelAt: c08ms(1500)},
				{Tid: 4, Name: "*.b", StartAt: c08ms(320), HoldFor: c08ms(100), CancelAt: c08ms(1500)}},
			Horizon: c08ms(3000)},
		// distinct names with distinct Safe images (several need sanitizing), goroutines and processes,
		// all at once and held for a while: nobody waits; the one repeated name does
		{Name: "names-distinct", Class: "names", NamesClass: "names-distinct",
			Threads: []c08Thread{{Tid: 0, Name: "issue_cert_example.com", StartAt: c08ms(100), HoldFor: c08ms(1500)},
				{Tid: 1, Name: "issue_cert_example.org", StartAt: c08ms(150), HoldFor: c08ms(1500)},
				{Tid: 2, Pid: 1, Name: "issue_cert_*.example.com", StartAt: c08ms(200), HoldFor: c08ms(1500)},
				{Tid: 3, Name: "issue_cert_wildcard.example.com", StartAt: c08ms(250), HoldFor: c08ms(1500)},
				{Tid: 4, Pid: 2, Name: "Issue Cert/Ex Ample:8443", StartAt: c08ms(300), HoldFor: c08ms(1500)},
				{Tid: 5, Name: "../a\\b", StartAt: c08ms(350), HoldFor: c08ms(1500)},
				{Tid: 6, Name: "issue_cert_example.com", StartAt: c08ms(400), HoldFor: c08ms(200), CancelAt: long},
				{Tid: 7, Name: "issue_cert_example.co", StartAt: c08ms(450), HoldFor: c08ms(1000)},
				// long names (203 characters) that differ only in their last characters, and one that differs early
				{Tid: 8, Name: "issue_cert_" + c08LongHost + ".example.com", StartAt: c08ms(120), HoldFor: c08ms(1500)},
				{Tid: 9, Pid: 3, Name: "issue_cert_" + c08LongHost + ".example.net", StartAt: c08ms(220), HoldFor: c08ms(1500)},
				{Tid: 10, Name: "issue_cert_" + c08LongHost + ".example.nex", StartAt: c08ms(320), HoldFor: c08ms(1500)},
				{Tid: 11, Name: "issue_cert_b" + c08LongHost[1:] + ".example.com", StartAt: c08ms(420), HoldFor: c08ms(1500)}},
			Horizon: c08ms(4500)},
		// a live holder that is not scheduled for 11 s (SIGSTOP ... SIGCONT; a paused VM, a long stall)
		// cannot refresh its lock file: the waiter takes the lock while the holder still holds it
		// (known finding C08-suspended-holder; H-live is the hypothesis it violates)
		{Name: "suspended-holder", Class: "suspended-holder",
			Threads: []c08Thread{{Tid: 0, Pid: 1, Name: n, StartAt: c08ms(200), HoldFor: c08ms(14000)}, {Tid: 1, Name: n, StartAt: c08ms(700), HoldFor: c08ms(500), CancelAt: long}},
			Signals: []c08Signal{{Pid: 1, At: c08ms(1000)}, {Pid: 1, At: c08ms(12000), Cont: true}}, Horizon: c08ms(16000)},
		// system-call level: a process takes the lock, holds it over one heartbeat, releases it; a second
		// process polls meanwhile and takes it afterwards; a third gives up on a fresh pre-made file
		{Name: "trace-holder-and-waiter", Class: "traced", Trace: true,
			Threads: []c08Thread{{Tid: 0, Pid: 1, Name: n, StartAt: c08ms(200), HoldFor: c08ms(5600)}, {Tid: 1, Pid: 2, Name: n, StartAt: c08ms(3700), HoldFor: c08ms(300), CancelAt: long}},
			Horizon: c08ms(9000)},
		{Name: "trace-waiter-gives-up", Class: "traced", Trace: true, Pre: c08PreFile{Kind: "meta", CreatedAge: c08ms(1000), UpdatedAge: c08ms(100)},
			Threads: []c08Thread{{Tid: 0, Pid: 1, Name: n, StartAt: c08ms(200), HoldFor: c08ms(100), CancelAt: c08ms(1750)}},
			Horizon: c08ms(3000)},
		{Name: "trace-stale-takeover", Class: "traced", Trace: true, Pre: c08PreFile{Kind: "meta", CreatedAge: c08ms(90000), UpdatedAge: c08ms(30000)},
			Threads: []c08Thread{{Tid: 0, Pid: 1, Name: n, StartAt: c08ms(200), HoldFor: c08ms(300), CancelAt: long}},
			Horizon: c08ms(3000)},
		// the context passed to Lock bounds the ACQUISITION only: it ends (deadline, `defer cancel()`) right
		// after Lock returned, the hold goes on for more than 2 x interval with a contender waiting - the
		// lock must stay the holder's (a heartbeat tied to that context would stop and the waiter steal it)
		{Name: "holder-context-ends-after-acquisition", Class: "holder-ctx",
			Threads: []c08Thread{{Tid: 0, Name: n, StartAt: 0, HoldFor: c08ms(12600), CancelAt: c08ms(1000)}, {Tid: 1, Pid: 1, Name: n, StartAt: c08ms(500), HoldFor: c08ms(200), CancelAt: long}},
			Horizon: c08ms(15000)},
		{Name: "holder-process-context-ends-after-acquisition", Class: "holder-ctx",
			Threads: []c08Thread{{Tid: 0, Pid: 1, Name: n, StartAt: c08ms(200), HoldFor: c08ms(12600), CancelAt: c08ms(700)}, {Tid: 1, Name: n, StartAt: c08ms(500), HoldFor: c08ms(200), CancelAt: long}},
			Horizon: c08ms(15000)},
		{Name: "three-processes", Class: "multi-process",
			Threads: []c08Thread{{Tid: 0, Pid: 1, Name: n, StartAt: c08ms(150), HoldFor: c08ms(600)}, {Tid: 1, Pid: 2, Name: n, StartAt: c08ms(350), HoldFor: c08ms(600), CancelAt: long},
				{Tid: 2, Pid: 3, Name: n, StartAt: c08ms(550), HoldFor: c08ms(600), CancelAt: long}},
			Horizon: c08ms(5000)},
		{Name: "stale-file-two-waiters", Class: "stale-prefile", Pre: c08PreFile{Kind: "meta", CreatedAge: c08ms(60000), UpdatedAge: c08ms(30000)},
			Threads: []c08Thread{{Tid: 0, Name: n, StartAt: c08ms(200), HoldFor: c08ms(1000), CancelAt: long}, {Tid: 1, Pid: 1, Name: n, StartAt: c08ms(600), HoldFor: c08ms(200), CancelAt: long}},
			Horizon: c08ms(4000)},
		// a lock taken over from a dead holder (stale file removed) is a lock like any other: it is
		// kept fresh over a long hold
		{Name: "long-hold-after-stale-takeover", Class: "stale-prefile", Pre: c08PreFile{Kind: "meta", CreatedAge: c08ms(90000), UpdatedAge: c08ms(20000)},
			Threads: []c08Thread{{Tid: 0, Name: n, StartAt: c08ms(200), HoldFor: c08ms(12500), CancelAt: long}, {Tid: 1, Pid: 1, Name: n, StartAt: c08ms(900), HoldFor: c08ms(200), CancelAt: long}},
			Horizon: c08ms(15000)},
		{Name: "long-hold-after-empty-takeover", Class: "empty-prefile", Pre: c08PreFile{Kind: "empty", MtimeAge: c08ms(60000)},
			Threads: []c08Thread{{Tid: 0, Name: n, StartAt: c08ms(200), HoldFor: c08ms(12500), CancelAt: long}, {Tid: 1, Name: n, StartAt: c08ms(3100), HoldFor: c08ms(200), CancelAt: long}},
			Horizon: c08ms(16500)},
		// the documented race after a crash: waiter 1 (slow unlink: 600 ms) judges the dead holder's file
		// stale; before its os.Remove takes place waiter 0 has removed the file, created its own and holds;
		// the late os.Remove deletes waiter 0's live lock file and waiter 1 holds too (known finding C08-stale-race)
		{Name: "stale-race-after-crash", Class: "stale-race", Pre: c08PreFile{Kind: "meta", CreatedAge: c08ms(90000), UpdatedAge: c08ms(40000)},
			Threads: []c08Thread{{Tid: 0, Pid: 1, Name: n, StartAt: c08ms(500), HoldFor: c08ms(2000), CancelAt: long}, {Tid: 1, Pid: 2, Name: n, StartAt: c08ms(250), HoldFor: c08ms(500), CancelAt: long}},
			SlowRemove: map[int]time.Duration{2: c08ms(600)}, Horizon: c08ms(4500)},
		{Name: "empty-file-then-release", Class: "empty-prefile", Pre: c08PreFile{Kind: "empty", MtimeAge: c08ms(60000)},
			Threads: []c08Thread{{Tid: 0, Name: n, StartAt: c08ms(100), HoldFor: c08ms(1000), CancelAt: long}, {Tid: 1, Name: n, StartAt: c08ms(300), HoldFor: c08ms(100), CancelAt: long}},
			Horizon: c08ms(5000)},
	}
	if _, err := exec.LookPath("strace"); err == nil {
		// slow storage: every heartbeat of the holder leaves the file empty for 1.3 s; the waiter sees
		// about five empty reads at each of two heartbeats, with successful reads in between
		scs = append(scs, c08Scenario{Name: "slow-truncate-live-holder", Class: "slow-storage-empty-count", Gap: c08ms(1300), Tol: c08ms(1200),
			Threads: []c08Thread{{Tid: 0, Pid: 1, Name: n, StartAt: c08ms(250), HoldFor: c08ms(13250)}, {Tid: 1, Name: n, StartAt: c08ms(500), HoldFor: c08ms(200), CancelAt: long}},
			Horizon: c08ms(16000)})
	}
	if _, err := exec.LookPath("strace"); err == nil {
		// storage slower still: one truncate -> write gap of 2.3 s is longer than the eight empty-read
		// retries (8 x 250 ms). Before the modification-time guard the waiter gave up on the live holder's
		// empty file within that ONE gap (finding C08-write-gap-longer-than-retries, fixed); now it keeps waiting
		scs = append(scs, c08Scenario{Name: "slow-truncate-gap-longer-than-retries", Class: "slow-storage-long-gap", Gap: c08ms(2300), Tol: c08ms(1200),
			Threads: []c08Thread{{Tid: 0, Pid: 1, Name: n, StartAt: c08ms(250), HoldFor: c08ms(9000)}, {Tid: 1, Name: n, StartAt: c08ms(500), HoldFor: c08ms(200), CancelAt: long}},
			Horizon: c08ms(12000)})
	}
	if tier == "thorough" {
		// holder killed at a random moment (kept away from its heartbeat instants); the waiter's
		// poll phase is chosen so that the staleness instant falls between two polls
		for i := 0; i < 6; i++ {
			create := 200
			var kill int
			for {
				kill = 400 + r.Intn(13000)
				ok := true
				for hb := create + 5000; hb < 20000; hb += 5000 {
					if kill > hb-200 && kill < hb+300 {
						ok = false
					}
				}
				if ok {
					break
				}
			}
			lastUpd := create + ((kill-create)/5000)*5000
			staleAt := lastUpd + 10000
			wstart := 300 + (staleAt+500-300)%1000 // polls at staleAt + 500 (mod 1000)
			pid := 1
			scs = append(scs, c08Scenario{Name: fmt.Sprintf("kill-holder-at-%dms", kill), Class: "kill-holder",
				Threads: []c08Thread{{Tid: 0, Pid: pid, Name: n, StartAt: c08ms(create), HoldFor: -1},
					{Tid: 1, Pid: 2 * (i % 2), Name: n, StartAt: c08ms(wstart), HoldFor: c08ms(200), CancelAt: 40 * time.Second}},
				Kills: []c08Kill{{pid, c08ms(kill)}}, Horizon: c08ms(staleAt + 4000)})
		}
		scs = append(scs,
			c08Scenario{Name: "hold-40s", Class: "long-hold",
				Threads: []c08Thread{{Tid: 0, Pid: 1, Name: n, StartAt: c08ms(150), HoldFor: c08ms(40250)}, {Tid: 1, Name: n, StartAt: c08ms(500), HoldFor: c08ms(200), CancelAt: 60 * time.Second},
					{Tid: 2, Pid: 2, Name: n, StartAt: c08ms(800), HoldFor: c08ms(200), CancelAt: 60 * time.Second}},
				Horizon: c08ms(45000)},
			c08Scenario{Name: "kill-holder-at-11.6s", Class: "kill-holder",
				Threads: []c08Thread{{Tid: 0, Pid: 1, Name: n, StartAt: c08ms(200), HoldFor: -1}, {Tid: 1, Pid: 2, Name: n, StartAt: c08ms(750), HoldFor: c08ms(200), CancelAt: 40 * time.Second}},
				Kills:   []c08Kill{{1, c08ms(11600)}}, Horizon: c08ms(30000)},
			c08Scenario{Name: "zombie-after-heartbeat", Class: "zombie-heartbeat",
				Threads: []c08Thread{{Tid: 0, Name: n, StartAt: 0, HoldFor: c08ms(5600)}, {Tid: 1, Pid: 1, Name: n, StartAt: c08ms(5900), HoldFor: -1},
					{Tid: 2, Name: n, StartAt: c08ms(6550), HoldFor: c08ms(200), CancelAt: 40 * time.Second}},
				Kills: []c08Kill{{1, c08ms(6400)}}, Horizon: c08ms(34000)},
			c08Scenario{Name: "kill-waiter-not-holder", Class: "kill-waiter",
				Threads: []c08Thread{{Tid: 0, Name: n, StartAt: 0, HoldFor: c08ms(3000)}, {Tid: 1, Pid: 1, Name: n, StartAt: c08ms(400), HoldFor: -1, CancelAt: long},
					{Tid: 2, Name: n, StartAt: c08ms(650), HoldFor: c08ms(200), CancelAt: long}},
				Kills: []c08Kill{{1, c08ms(1500)}}, Horizon: c08ms(6000)},
		)
	}
	return scs
}

func runC08(tier string, seed int64, outdir string, replay string) error {
	if tier == "child" {
		return c08Child(outdir, replay)
	}
	w := emit.NewWriter(outdir, "C08", tier, seed)
	w.Meta.Oracles = []emit.OracleCheck{}
	defer w.Close()
	r := rand.New(rand.NewSource(seed))
	tmproot, err := os.MkdirTemp("", "c08")
	if err != nil {
		return err
	}
	defer os.RemoveAll(tmproot)

	scs := append(c08Scenarios(tier, r), c08Table(r, tier)...)
	if replay != "" {
		rc, err := loadReplay(replay)
		if err != nil {
			return err
		}
		var sc c08Scenario
		if err := json.Unmarshal(rc.In, &sc); err != nil {
			return err
		}
		scs = []c08Scenario{sc}
	}
	results := make([]*c08Result, len(scs))
	errs := make([]error, len(scs))
	var wg sync.WaitGroup
	for i := range scs {
		wg.Add(1)
		go func(i int) {
			defer wg.Done()
			results[i], errs[i] = c08Run(tmproot, scs[i])
			// one retry when the machine was too busy to keep the plan
			if errs[i] == nil && results[i].Skipped != "" {
				results[i], errs[i] = c08Run(tmproot, scs[i])
			}
		}(i)
	}
	wg.Wait()
	for i := range scs {
		if errs[i] != nil {
			return errs[i]
		}
		c08Emit(w, results[i])
	}
	w.Meta.Rule = "scenarios with at least two contending threads or a pre-made lock file (each exercises waiting, staleness, the empty-file rule, cancellation, kill or release)"
	w.Meta.Extra = map[string]any{"tolerance_ms": c08Tol.Milliseconds(), "jitter_ms": c08Jit.Milliseconds()}
	return nil
}
