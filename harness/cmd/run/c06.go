//go:build !skip_c06

package main

import (
	"encoding/json"
	"fmt"
	"math/rand"
	"os"
	"path/filepath"
	"strings"
	"sync"
	"time"

	"github.com/caddyserver/certmagic"

	"verifharness/pkg/emit"
)

func init() { register("C06", c06Run) }

type c06In struct {
	Cfg     c06Cfg     `json:"cfg"`
	Subj    c06Subject `json:"subject"`
	Steps   []c06Hop   `json:"steps"`
	Backend string     `json:"backend,omitempty"` // "" = in-memory double, "filestorage" = the real FileStorage on a temp directory
	Rep     int        `json:"rep,omitempty"`     // repetition number of a history whose outcome is a race
}

// c06Result: one executed history, ready to be added to the writer (histories run in parallel, the
// writer is fed in input order).
type c06Result struct {
	c     emit.Case
	hist  []string
	notes []string
	skip  string
	ops   []int // Storage calls made by each step
	logs  [][]string
}

func c06CountOps(o c06Obs) int {
	n := 0
	for _, ev := range o.logEnc {
		if ev[0] == 0 {
			n++
		}
	}
	return n
}

// c06SweepBases: histories whose marked step is run once per Storage-call index with that call
// failing (obtain, forced renewal, renewal of a due certificate by manage; one and two issuers; fresh
// and reused key), followed by a fault-free manage. The property's first clause binds under storage
// errors too: a reported success must have left a complete, matching, reloadable bundle.
// c06RetryHistories: ObtainCertAsync / RenewCertAsync (doWithRetry; the closure ManageAsync, on-demand issuance
// and forceRenew run too) with issuer outcomes [fail, ok], [fail, fail, ok], [fail, fail] per attempt, both
// key-reuse settings, one and two issuers (incl. "first issuer fails in every attempt"), followed by manage.
func c06RetryHistories() (ins []c06In, origins []string) {
	dns := c06Subjects[0]
	for _, reuse := range []bool{false, true} {
		for _, n := range []int{1, 2} {
			cfg := c06Cfg{N: n, Reuse: reuse, KeyType: "p256"}
			all := func(o c06Outcome) c06Oracle {
				outs := make([]c06Outcome, n)
				for i := range outs {
					outs[i] = o
				}
				return c06Oracle{Out: outs}
			}
			lastOnly := func(o c06Outcome) c06Oracle { // only the last issuer answers
				outs := make([]c06Outcome, n)
				outs[n-1] = o
				return c06Oracle{Out: outs}
			}
			m := c06Hop{Op: "manage", Orc: all(c06Up(90, 0))}
			pats := [][]c06Oracle{
				{all(c06Down), all(c06Up(20, 0))},
				{all(c06Down), all(c06Down), all(c06Up(20, 0))},
				{all(c06Down), lastOnly(c06Up(20, 0))},
				{all(c06Down), all(c06Down)},
			}
			for _, p := range pats {
				// obtain from nothing
				ins = append(ins, c06In{Cfg: cfg, Subj: dns, Steps: []c06Hop{
					{Op: "obtain", Orc: p[0], More: p[1:]}, m, m}})
				// forced renewal, and renewal of a due certificate
				ins = append(ins, c06In{Cfg: cfg, Subj: dns, Steps: []c06Hop{
					{Op: "manage", Orc: all(c06Up(10, 0))}, {Op: "renew", Force: true, Orc: p[0], More: p[1:]}, m}})
				ins = append(ins, c06In{Cfg: cfg, Subj: dns, Steps: []c06Hop{
					{Op: "manage", Orc: all(c06Up(10, 1))}, {Op: "renew", Orc: p[0], More: p[1:]}, m}})
				origins = append(origins, "retry", "retry", "retry")
			}
		}
	}
	return ins, origins
}

// c06CancelHistories: ObtainCertAsync / RenewCertAsync with a context that is already cancelled (the select
// between the zero back-off timer and ctx.Done() is a race: each history is repeated 10 times per back-end), or
// that the first failing issuer answer cancels (cancelled during the back-off), on both back-ends, followed by
// manage. A reported success must leave a complete matching bundle; a reported context.Canceled is fine.
func c06CancelHistories() (ins []c06In, origins []string) {
	dns := c06Subjects[0]
	up, dn := c06Orc(c06Up(20, 0)), c06Orc(c06Down)
	m := c06Hop{Op: "manage", Orc: c06Orc(c06Up(90, 0))}
	for _, backend := range []string{"", "filestorage"} {
		for _, reuse := range []bool{false, true} {
			cfg := c06Cfg{N: 1, Reuse: reuse, KeyType: "p256"}
			reps := 5
			if !reuse {
				reps = 10
			}
			for rep := 0; rep < reps; rep++ {
				ins = append(ins,
					c06In{Cfg: cfg, Subj: dns, Backend: backend, Rep: rep, Steps: []c06Hop{
						{Op: "obtain", Orc: up, Cancel: "pre"}, m}},
					c06In{Cfg: cfg, Subj: dns, Backend: backend, Rep: rep, Steps: []c06Hop{
						{Op: "manage", Orc: c06Orc(c06Up(10, 0))}, {Op: "renew", Force: true, Orc: up, Cancel: "pre"}, m}})
				origins = append(origins, "cancel", "cancel")
			}
			for rep := 0; rep < 2; rep++ {
				ins = append(ins,
					c06In{Cfg: cfg, Subj: dns, Backend: backend, Rep: rep, Steps: []c06Hop{
						{Op: "obtain", Orc: dn, More: []c06Oracle{up}, Cancel: "backoff"}, m}},
					c06In{Cfg: cfg, Subj: dns, Backend: backend, Rep: rep, Steps: []c06Hop{
						{Op: "manage", Orc: c06Orc(c06Up(10, 0))}, {Op: "renew", Force: true, Orc: dn, More: []c06Oracle{up}, Cancel: "backoff"}, m}})
				origins = append(origins, "cancel", "cancel")
			}
		}
	}
	return ins, origins
}

// c06QuarantineBases: a certificate revoked for key compromise is replaced by manage; the marked step
// is run with each Storage call of the quarantine (moveCompromisedPrivateKey: Load .key, Store
// .key.compromised, Delete .key) failing - only those: a storage error inside the obtain that follows would
// be retried with minutes of back-off (not modelled). Whatever fails there, nothing may be issued on the
// compromised key.
func c06QuarantineBases() (bases []c06In, target []int) {
	dns := c06Subjects[0]
	m := func(o ...c06Outcome) c06Hop { return c06Hop{Op: "manage", Orc: c06Orc(o...)} }
	rev := c06Hop{Op: "revenv", I: 0, KC: true}
	for _, reuse := range []bool{true, false} {
		c1 := c06Cfg{N: 1, Reuse: reuse, KeyType: "p256"}
		c2 := c06Cfg{N: 2, Reuse: reuse, KeyType: "p256"}
		bases = append(bases,
			c06In{Cfg: c1, Subj: dns, Steps: []c06Hop{m(c06Up(10, 0)), rev, m(c06Up(20, 0)), m(c06Up(30, 0))}},
			c06In{Cfg: c1, Subj: dns, Steps: []c06Hop{m(c06Up(10, 1)), rev, m(c06Up(20, 0)), m(c06Up(30, 0))}},
			c06In{Cfg: c2, Subj: dns, Steps: []c06Hop{m(c06Up(10, 0), c06Down), rev, m(c06Up(20, 0), c06Up(20, 0)), m(c06Up(30, 0), c06Up(30, 0))}},
			c06In{Cfg: c2, Subj: dns, Steps: []c06Hop{m(c06Up(10, 0), c06Down), rev, m(c06Down, c06Up(20, 0)), m(c06Up(30, 0), c06Up(30, 0))}})
		target = append(target, 2, 2, 2, 2)
	}
	return bases, target
}

// c06QuarantineOps: indices (among the Storage calls of the step) of the three calls of the quarantine.
func c06QuarantineOps(log []string) []int {
	n := 0
	for _, l := range log {
		if strings.HasPrefix(l, "Issue") || strings.HasPrefix(l, "GenKey") {
			continue
		}
		if strings.HasPrefix(l, "Store file(") && strings.Contains(l, ",compromised)") {
			return []int{n - 1, n, n + 1}
		}
		n++
	}
	return nil
}

// c06LoneKeyBases: key reuse with the site's .key in storage but no complete bundle (what an interrupted save
// leaves: the Store of the .crt and the roll-back Delete of the .key both failed), then an obtain swept over
// every call index: the Load of that .key failing with an I/O error (not "does not exist") must abort the
// obtain - the stored key is kept, never silently replaced by a new one.
func c06LoneKeyBases() (bases []c06In, target []int) {
	dns := c06Subjects[0]
	for _, n := range []int{1, 2} {
		cfg := c06Cfg{N: n, Reuse: true, KeyType: "p256"}
		first := c06Orc(c06Up(10, 0))
		all := c06Orc(c06Up(20, 0))
		if n == 2 {
			first = c06Orc(c06Down, c06Up(10, 0)) // the lone key ends up in the second issuer's directory
			all = c06Orc(c06Up(20, 0), c06Up(20, 0))
		}
		// where is the Store of the .crt in a plain obtain?
		r0 := c06Exec(c06In{Cfg: cfg, Subj: dns, Steps: []c06Hop{{Op: "obtain", Orc: first}}}, "lone-key-probe")
		p, k := -1, 0
		if len(r0.logs) == 1 {
			for _, l := range r0.logs[0] {
				if strings.HasPrefix(l, "Issue") || strings.HasPrefix(l, "GenKey") {
					continue
				}
				if strings.HasPrefix(l, "Store file(") && strings.Contains(l, ",crt)") {
					p = k
				}
				k++
			}
		}
		if p < 0 {
			continue
		}
		bases = append(bases, c06In{Cfg: cfg, Subj: dns, Steps: []c06Hop{
			{Op: "obtain", Orc: first, Fails: []int{p, p + 1}},
			{Op: "obtain", Orc: all},
			{Op: "manage", Orc: all}}})
		target = append(target, 1)
		bases = append(bases, c06In{Cfg: cfg, Subj: dns, Steps: []c06Hop{
			{Op: "obtain", Orc: first, Fails: []int{p, p + 1}},
			{Op: "manage", Orc: all},
			{Op: "manage", Orc: all}}})
		target = append(target, 1)
	}
	return bases, target
}

func c06SweepBases() (bases []c06In, target []int) {
	dns := c06Subjects[0]
	m := func(o ...c06Outcome) c06Hop { return c06Hop{Op: "manage", Orc: c06Orc(o...)} }
	for _, reuse := range []bool{false, true} {
		c1 := c06Cfg{N: 1, Reuse: reuse, KeyType: "p256"}
		c2 := c06Cfg{N: 2, Reuse: reuse, KeyType: "p256"}
		add := func(c c06Cfg, t int, steps ...c06Hop) {
			bases = append(bases, c06In{Cfg: c, Subj: dns, Steps: steps})
			target = append(target, t)
		}
		add(c1, 0, c06Hop{Op: "obtain", Orc: c06Orc(c06Up(10, 0))}, m(c06Up(20, 0)))
		add(c1, 1, m(c06Up(10, 0)), c06Hop{Op: "renew", Force: true, Orc: c06Orc(c06Up(20, 0))}, m(c06Up(30, 0)))
		add(c1, 1, m(c06Up(10, 1)), m(c06Up(20, 0)), m(c06Up(30, 0)))
		add(c2, 0, m(c06Down, c06Up(10, 0)), m(c06Up(20, 0), c06Up(20, 0)))
		add(c2, 1, m(c06Down, c06Up(10, 1)), m(c06Up(20, 0), c06Up(20, 0)), m(c06Up(30, 0), c06Up(30, 0)))
		// both issuers hold a bundle (B's older, A's newer): every Load of the selection fails in turn - a
		// failing Load must be an error, never a silent fall-back to the other issuer's older certificate
		add(c2, 2, m(c06Down, c06Up(10, 0)), c06Hop{Op: "renew", Force: true, Orc: c06Orc(c06Up(20, 0), c06Down)},
			m(c06Up(30, 0), c06Up(30, 0)), m(c06Up(40, 0), c06Up(40, 0)))
	}
	return bases, target
}

func c06RunCase(w *emit.Writer, in c06In, origin string) { c06Emit(w, c06Exec(in, origin)) }

func c06Emit(w *emit.Writer, r c06Result) {
	if r.skip != "" {
		w.Meta.Notes = append(w.Meta.Notes, r.skip)
		return
	}
	for _, h := range r.hist {
		w.Hist(h)
	}
	w.Meta.Notes = append(w.Meta.Notes, r.notes...)
	w.Add(r.c)
}

// c06RunAll executes the histories with a small worker pool and emits them in order.
func c06RunAll(w *emit.Writer, ins []c06In, origins []string) {
	out := make([]c06Result, len(ins))
	sem := make(chan struct{}, 6)
	var wg sync.WaitGroup
	for i := range ins {
		wg.Add(1)
		sem <- struct{}{}
		go func(i int) {
			defer wg.Done()
			defer func() { <-sem }()
			out[i] = c06Exec(ins[i], origins[i])
		}(i)
	}
	wg.Wait()
	for _, r := range out {
		c06Emit(w, r)
	}
}

// c06Exec runs one history on the real code.
func c06Exec(in c06In, origin string) (res c06Result) {
	hist := func(h string) { res.hist = append(res.hist, h) }
	bw := c06NewWorld(in.Cfg, in.Subj)
	var fw *c07FSWorld
	if in.Backend == "filestorage" {
		dir, err := os.MkdirTemp("", "c06fs-")
		if err != nil {
			res.skip = "filestorage history skipped: " + err.Error()
			return
		}
		defer os.RemoveAll(dir)
		fw = c07NewFSWorld(in.Cfg, in.Subj, dir)
		bw = fw.c06World
	}
	e := &emit.Enc{}
	c06EncCfg(e, in.Cfg)
	bw.encSubject(e)
	e.Len(len(in.Steps))
	var obsAll []c06Obs
	class := "history"
	issuances := 0
	opsSeen := map[string]bool{}
	symptom := "none"
	faultedSteps, faultsHit, retrySteps, cancelSteps := 0, 0, 0, 0
	fwd, fwdSteps := true, 0
	var prevSt []c06Entry
	for si := range in.Steps {
		h := &in.Steps[si]
		// class of the known finding: manage is about to load a certificate revoked for key compromise
		// while another issuer's directory holds a complete bundle
		if h.Op == "manage" && in.Cfg.Reuse && in.Cfg.N >= 2 && bw.kcRevokedWithOtherBundle() {
			class = "keycompromise-other-issuer-holds-bundle"
		}
		// forward step (Recency.v): every issuer answer is dated after all stored certificates
		if fwd && (h.Op == "manage" || h.Op == "obtain" || h.Op == "renew") {
			for _, out := range h.Orc.Out {
				for _, e := range prevSt {
					if out.Up && e.K == 1 && len(e.Val) >= 4 && e.Val[3] >= out.NB {
						fwd = false
					}
				}
			}
			if fwd {
				fwdSteps++
			}
		}
		var o c06Obs
		var plan *c06Plan
		if len(h.Fails) > 0 {
			plan = &c06Plan{Fails: h.Fails, From: -1, Crash: -1}
			faultedSteps++
		}
		if fw != nil {
			o, _ = fw.runLocalPlan(*h, plan, true)
			if plan != nil { // a failed Unlock leaves the lock file behind: the staleness rule, at once
				os.RemoveAll(filepath.Join(fw.dir, "locks"))
			}
		} else {
			o = bw.runHop(*h, plan, true)
			if plan != nil {
				bw.breakLocks()
				if plan.Fails[0] < bw.cnt {
					faultsHit++
				}
			}
		}
		res.ops = append(res.ops, c06CountOps(o))
		res.logs = append(res.logs, o.Log)
		prevSt = o.stEnc
		if in.Cfg.Rnd {
			h.Orc.Perm = c06CompletePerm(in.Cfg.N, o)
		}
		c06EncHop(e, *h)
		c06EncOracle(e, h.Orc)
		e.Len(len(h.Fails))
		for _, f := range h.Fails {
			e.Int(f)
		}
		e.Len(len(h.More))
		for _, mo := range h.More {
			c06EncOracle(e, mo)
		}
		if len(h.More) > 0 {
			retrySteps++
		}
		if h.Cancel != "" {
			h.Ran = c06AttemptsRun(o)
			e.Bool(true).Int(h.Ran)
			cancelSteps++
			hist(fmt.Sprintf("cancel=%s/attempts_run=%d/res=%d", h.Cancel, h.Ran, o.Res))
		} else {
			e.Bool(false)
		}
		c06EncObs(e, o)
		obsAll = append(obsAll, o)
		for _, ev := range o.logEnc {
			if ev[0] == 1 && ev[3] == 1 {
				issuances++
			}
		}
		// symptom of the spelling finding: something was issued and saved in this step, yet a load
		// with the requested spelling says "does not exist" (saved under another directory)
		if bw.sLoad != bw.sSave && o.ProbeRes == 1 {
			for _, ev := range o.logEnc {
				if ev[0] == 1 && ev[3] == 1 {
					symptom = "issued-but-reload-does-not-exist"
				}
			}
		}
		opsSeen[h.Op] = true
		hist("op=" + h.Op)
		hist(fmt.Sprintf("op_res=%s/%d", h.Op, o.Res))
	}
	hist("subject=" + in.Subj.Kind)
	hist(fmt.Sprintf("issuers=%d", in.Cfg.N))
	hist(fmt.Sprintf("reuse=%v", in.Cfg.Reuse))
	hist(fmt.Sprintf("policy_random=%v", in.Cfg.Rnd))
	hist("keytype=" + in.Cfg.KeyType)
	hist(fmt.Sprintf("issuances=%d", min(issuances, 6)))
	hist("class=" + class)
	hist("symptom=" + symptom)
	hist(fmt.Sprintf("retrying_steps=%d", min(retrySteps, 3)))
	hist(fmt.Sprintf("faulted_steps=%d", min(faultedSteps, 3)))
	hist(fmt.Sprintf("faults_inside_the_operation=%d", min(faultsHit, 3)))
	if in.Backend == "" {
		hist("backend=memory")
	} else {
		hist("backend=" + in.Backend)
	}
	hist(fmt.Sprintf("forward_history=%v", fwd))
	hist(fmt.Sprintf("forward_prefix_ops=%d", min(fwdSteps, 6)))
	res.notes = append(res.notes, bw.oracleNotes...)
	key, _ := json.Marshal(in)
	res.c = emit.Case{
		Desc: map[string]any{"class": class, "subject_kind": in.Subj.Kind, "issuers": in.Cfg.N, "reuse": in.Cfg.Reuse,
			"policy_random": in.Cfg.Rnd, "keytype": in.Cfg.KeyType, "origin": origin, "steps": len(in.Steps),
			"spelling_dirs_differ": bw.sLoad != bw.sSave, "symptom": symptom, "backend": in.Backend,
			"faulted_steps": faultedSteps, "retrying_steps": retrySteps, "cancelled_steps": cancelSteps},
		In: in, Obs: obsAll, Wire: e.String(),
		Nontrivial: issuances >= 1 && len(in.Steps) >= 2, Key: string(key)}
	return res
}

// kcRevokedWithOtherBundle: looks at the raw storage the way the harness monitor does: is the
// bundle a load would pick (newest NotBefore, first issuer on ties) revoked for key compromise
// while another issuer's directory holds a complete bundle too?
func (w *c06World) kcRevokedWithOtherBundle() bool {
	var o c06Obs
	w.snapshot(&o)
	files := map[int]int{}
	nb := map[int]int64{}
	ser := map[int]int{}
	for _, e := range o.stEnc {
		if e.D == w.sSave && e.K <= 2 {
			files[e.I]++
			if e.K == 1 {
				nb[e.I], ser[e.I] = e.Val[3], int(e.Val[5])
			}
		}
	}
	best, n := -1, 0
	for i := 0; i < w.cfg.N; i++ {
		if files[i] == 3 {
			n++
			if best < 0 || nb[i] > nb[best] {
				best = i
			}
		}
	}
	if best < 0 || n < 2 {
		return false
	}
	kc, ok := w.revoked[ser[best]]
	return ok && kc
}

func c06Up(nb int64, val int) c06Outcome { return c06Outcome{Up: true, NB: nb, Val: val} }

var c06Down = c06Outcome{}

func c06Orc(outs ...c06Outcome) c06Oracle { return c06Oracle{Out: outs} }

// c06Corpus: the witnesses of DESIGN §5.C06 and hand-picked histories; run first on every run.
func c06Corpus() []c06In {
	dns := c06Subjects[0]
	var cs []c06In
	// the reproduced defect: issuers [A(c06Down), B], reuse: obtain -> B/K; forced renew -> A/K;
	// A's certificate revoked for key compromise; manage => nil error, zero issuances, B's old
	// certificate with the same key K keeps being served.
	cs = append(cs, c06In{Cfg: c06Cfg{N: 2, Reuse: true, KeyType: "p256"}, Subj: dns, Steps: []c06Hop{
		{Op: "manage", Orc: c06Orc(c06Down, c06Up(10, 0))},
		{Op: "renew", Force: true, Orc: c06Orc(c06Up(20, 0), c06Up(20, 0))},
		{Op: "revenv", I: 0, KC: true},
		{Op: "manage", Orc: c06Orc(c06Up(30, 0), c06Up(30, 0))},
		{Op: "manage", Orc: c06Orc(c06Up(40, 0), c06Up(40, 0))},
	}})
	// same history, one issuer: the key is quarantined and a fresh one is used
	cs = append(cs, c06In{Cfg: c06Cfg{N: 1, Reuse: true, KeyType: "p256"}, Subj: dns, Steps: []c06Hop{
		{Op: "manage", Orc: c06Orc(c06Up(10, 0))},
		{Op: "renew", Force: true, Orc: c06Orc(c06Up(20, 0))},
		{Op: "revenv", I: 0, KC: true},
		{Op: "manage", Orc: c06Orc(c06Up(30, 0))},
		{Op: "manage", Orc: c06Orc(c06Up(40, 0))},
	}})
	// same history without key reuse
	cs = append(cs, c06In{Cfg: c06Cfg{N: 2, Reuse: false, KeyType: "p256"}, Subj: dns, Steps: []c06Hop{
		{Op: "manage", Orc: c06Orc(c06Down, c06Up(10, 0))},
		{Op: "renew", Force: true, Orc: c06Orc(c06Up(20, 0), c06Up(20, 0))},
		{Op: "revenv", I: 0, KC: true},
		{Op: "manage", Orc: c06Orc(c06Up(30, 0), c06Up(30, 0))},
	}})
	// revoked, not for key compromise: forced renewal keeps the key with reuse
	cs = append(cs, c06In{Cfg: c06Cfg{N: 2, Reuse: true, KeyType: "ed25519"}, Subj: dns, Steps: []c06Hop{
		{Op: "manage", Orc: c06Orc(c06Up(10, 0), c06Up(10, 0))},
		{Op: "revenv", I: 0, KC: false},
		{Op: "manage", Orc: c06Orc(c06Down, c06Up(20, 0))},
		{Op: "manage", Orc: c06Orc(c06Down, c06Down)},
	}})
	// newest-of-issuers: B newer than A, tie, and A newer
	for _, nbs := range [][2]int64{{10, 20}, {20, 20}, {30, 20}} {
		cs = append(cs, c06In{Cfg: c06Cfg{N: 2, Reuse: false, KeyType: "p256"}, Subj: dns, Steps: []c06Hop{
			{Op: "obtain", Orc: c06Orc(c06Down, c06Up(nbs[1], 0))},
			{Op: "renew", Force: true, Orc: c06Orc(c06Up(nbs[0], 0), c06Down)},
			{Op: "manage", Orc: c06Orc(c06Down, c06Down)},
		}})
	}
	// due certificate gets renewed by manage; expired one too; three issuers
	cs = append(cs, c06In{Cfg: c06Cfg{N: 3, Reuse: true, KeyType: "p384"}, Subj: dns, Steps: []c06Hop{
		{Op: "manage", Orc: c06Orc(c06Down, c06Down, c06Up(5, 1))},
		{Op: "manage", Orc: c06Orc(c06Down, c06Up(6, 2), c06Up(6, 0))},
		{Op: "manage", Orc: c06Orc(c06Up(7, 0), c06Down, c06Down)},
		{Op: "revapi"},
		{Op: "manage", Orc: c06Orc(c06Up(8, 0), c06Down, c06Down)},
	}})
	// every subject kind through manage, renew, manage
	for i, s := range c06Subjects {
		cs = append(cs, c06In{Cfg: c06Cfg{N: 1 + i%2, Reuse: i%3 == 0, KeyType: []string{"p256", "ed25519", "p384", "rsa2048"}[i%4]}, Subj: s, Steps: []c06Hop{
			{Op: "manage", Orc: c06Orc(c06Up(10, 1), c06Up(10, 1))},
			{Op: "obtain", Orc: c06Orc(c06Up(15, 0), c06Up(15, 0))},
			{Op: "manage", Orc: c06Orc(c06Up(20, 0), c06Up(20, 0))},
			{Op: "renew", Force: true, Orc: c06Orc(c06Down, c06Up(30, 0))},
			{Op: "manage", Orc: c06Orc(c06Down, c06Down)},
		}})
	}
	return cs
}

func c06Random(r *rand.Rand, heavyKeys, rsa4096 bool) c06In {
	n := 1 + r.Intn(3)
	kt := []string{"p256", "p256", "ed25519", "p384"}[r.Intn(4)]
	if heavyKeys && r.Intn(45) == 0 {
		kt = "rsa2048"
	}
	if rsa4096 && r.Intn(1000) == 0 { // seconds per key: thorough tier only (rsa8192: minutes per key, omitted)
		kt = "rsa4096"
	}
	in := c06In{Cfg: c06Cfg{N: n, Reuse: r.Intn(2) == 0, Rnd: r.Intn(4) == 0, KeyType: kt}, Subj: c06Subjects[r.Intn(len(c06Subjects))]}
	if r.Intn(3) == 0 {
		in.Subj = c06Subjects[0]
	}
	clock := int64(10)
	steps := 3 + r.Intn(6)
	for s := 0; s < steps; s++ {
		var h c06Hop
		switch x := r.Intn(100); {
		case x < 40:
			h.Op = "manage"
		case x < 55:
			h.Op = "obtain"
		case x < 75:
			h.Op = "renew"
			h.Force = r.Intn(2) == 0
		case x < 95:
			h.Op = "revenv"
			h.I = r.Intn(n)
			h.KC = r.Intn(3) != 0
		default:
			h.Op = "revapi"
		}
		// issuer answers: mostly a monotone clock, sometimes ties and backdating
		switch r.Intn(8) {
		case 0:
		case 1:
			clock -= int64(r.Intn(5))
			if clock < 1 {
				clock = 1
			}
		default:
			clock += int64(1 + r.Intn(5))
		}
		for i := 0; i < n; i++ {
			if r.Intn(10) < 3 {
				h.Orc.Out = append(h.Orc.Out, c06Down)
				continue
			}
			val := 0
			switch x := r.Intn(10); {
			case x < 3:
				val = 1
			case x < 4:
				val = 2
			}
			nb := clock
			if r.Intn(6) == 0 {
				nb = clock - int64(r.Intn(3))
				if nb < 0 {
					nb = 0
				}
			}
			h.Orc.Out = append(h.Orc.Out, c06Up(nb, val))
		}
		in.Steps = append(in.Steps, h)
	}
	return in
}

func c06Run(tier string, seed int64, outdir string, replay string) error {
	w := emit.NewWriter(outdir, "C06", tier, seed)
	defer w.Close()
	w.Meta.Rule = "a history counts as non-trivial when it has at least two steps and at least one certificate was really issued and stored; distinct = distinct (config, subject, steps with oracle answers)"
	kts := []string{"ed25519", "p256", "p384", "rsa2048"}
	if tier == "thorough" {
		kts = append(kts, "rsa4096")
	}
	w.Meta.Oracles = append(w.Meta.Oracles, c06PemCodecOracle(kts))
	if replay != "" {
		rc, err := loadReplay(replay)
		if err != nil {
			return err
		}
		var in c06In
		if err := json.Unmarshal(rc.In, &in); err != nil {
			return err
		}
		for i := range in.Steps {
			in.Steps[i].Orc.Perm = nil
		}
		// UseFirstRandomIssuer draws a fresh shuffle: repeat until the recorded failure class shows (bounded)
		c06RunCase(w, in, "replay")
		return nil
	}
	// doWithRetry's back-off table is a package variable: milliseconds instead of minutes for this process
	defer certmagic.VerifBundleSetRetryIntervals([]time.Duration{time.Millisecond, time.Millisecond})()
	var ins []c06In
	var origins []string
	for _, in := range c06Corpus() {
		ins, origins = append(ins, in), append(origins, "corpus")
	}
	// the same corpus, and a share of the random histories, on the real FileStorage (real files, real
	// Safe() file names on a real file system, FileStorage's own locks)
	for _, in := range c06Corpus() {
		in.Backend = "filestorage"
		ins, origins = append(ins, in), append(origins, "corpus-fs")
	}
	// storage-error sweep: learn the number of Storage calls of the marked step, then fail each in turn
	bases, target := c06SweepBases()
	lb, lt := c06LoneKeyBases()
	bases, target = append(bases, lb...), append(target, lt...)
	for bi, b := range bases {
		L := 0
		if r0 := c06Exec(b, "sweep-base"); len(r0.ops) > target[bi] {
			L = r0.ops[target[bi]]
		}
		for k := 0; k < L; k++ {
			in := b
			in.Steps = append([]c06Hop(nil), b.Steps...)
			in.Steps[target[bi]].Fails = []int{k}
			ins, origins = append(ins, in), append(origins, "error-sweep")
		}
	}
	// the retrying entry points: first attempt(s) fail at the issuers after the key was generated, a later one succeeds
	ins2, or2 := c06RetryHistories()
	ins, origins = append(ins, ins2...), append(origins, or2...)
	// the retrying entry points under a cancelled context (config reload, shutdown, queued background job)
	ins3, or3 := c06CancelHistories()
	ins, origins = append(ins, ins3...), append(origins, or3...)
	// storage errors inside the quarantine of a compromised key (forceRenew / moveCompromisedPrivateKey)
	qbases, qtarget := c06QuarantineBases()
	for bi, b := range qbases {
		r0 := c06Exec(b, "quarantine-base")
		if len(r0.logs) <= qtarget[bi] {
			continue
		}
		ks := c06QuarantineOps(r0.logs[qtarget[bi]])
		var plans [][]int
		for _, k := range ks {
			plans = append(plans, []int{k})
		}
		if len(ks) == 3 {
			plans = append(plans, []int{ks[1], ks[2]}) // Store .compromised fails and so does the Delete on its error path
		}
		for _, f := range plans {
			in := b
			in.Steps = append([]c06Hop(nil), b.Steps...)
			in.Steps[qtarget[bi]].Fails = f
			ins, origins = append(ins, in), append(origins, "quarantine-errors")
		}
	}
	n := 700
	if tier == "thorough" {
		n = 5000 // also the size of the targeted search after a broken proof / correspondence: keep it near a minute
	}
	r := rand.New(rand.NewSource(seed))
	for i := 0; i < n; i++ {
		in := c06Random(r, true, tier == "thorough")
		if i%8 == 7 {
			in.Backend = "filestorage"
		} else if i%4 == 1 {
			// storage errors in random histories: one failing call in some of the operations
			// (not once a revocation is pending: forceRenew goes through the retrying entry points, where an
			// error is retried with minutes of back-off - not modelled, see notes/C07.md)
			for si := range in.Steps {
				op := in.Steps[si].Op
				if op == "revenv" {
					break
				}
				if (op == "manage" || op == "obtain" || op == "renew") && r.Intn(3) == 0 {
					in.Steps[si].Fails = []int{r.Intn(26)}
				}
			}
		}
		ins, origins = append(ins, in), append(origins, "random")
	}
	c06RunAll(w, ins, origins)
	canonNote := emit.OracleCheck{Name: "canonical names: Safe(idna(name)) = Safe(name) for every canonical subject used (model's [canon])", OK: len(w.Meta.Notes) == 0}
	if !canonNote.OK {
		canonNote.Detail = w.Meta.Notes[0]
	}
	w.Meta.Oracles = append(w.Meta.Oracles, canonNote)
	return nil
}
