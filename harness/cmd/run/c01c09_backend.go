//go:build !skip_c01c09_backend

package main

// Storage back-ends of the lock-step driver (C01, C09): the in-memory double of pkg/doubles and the
// real certmagic.FileStorage behind a gate that announces every call through the same Log/Hook, so
// that the driver schedules, faults and observes both in the same way. The gated FileStorage
// honours contexts (as the in-memory double does with HonourCtx) except for Unlock.

import (
	"context"
	"encoding/json"
	"errors"
	"fmt"
	"io/fs"
	"os"
	"path/filepath"
	"sort"
	"strings"
	"sync"
	"time"

	"github.com/caddyserver/certmagic"

	"verifharness/pkg/doubles"
)

type c01Backend interface {
	Handle(inst string) certmagic.Storage
	Put(key string, v []byte)
	Get(key string) ([]byte, bool)
	Keys() []string
	HeldLocks() []string
	LockOwner(name string) string
	LockID(name string) string // identity of the lock a name denotes on this back-end
	GetLog() *doubles.Log
	Close()
}

// ---- in-memory

type c01MemBackend struct {
	*doubles.MemBackend
	lockIgnoresCtx *bool
}

// Handle: with lockIgnoresCtx the Locker grants an uncontended lock whatever the state of the caller's
// context (as FileStorage.Lock does: it consults the context only while it waits for a held lock).
func (b c01MemBackend) Handle(inst string) certmagic.Storage {
	return &c01MemHandle{MemStorage: b.MemBackend.Handle(inst), b: b}
}

type c01MemHandle struct {
	*doubles.MemStorage
	b c01MemBackend
}

func (h *c01MemHandle) Lock(ctx context.Context, name string) error {
	if h.b.lockIgnoresCtx == nil || !*h.b.lockIgnoresCtx {
		return h.MemStorage.Lock(ctx, name)
	}
	// like FileStorage.Lock: the context matters only while the lock is held by somebody else
	ctx2, cancel2 := context.WithCancel(context.WithoutCancel(ctx))
	defer cancel2()
	done := make(chan struct{})
	defer close(done)
	go func() {
		select {
		case <-ctx.Done():
		case <-done:
			return
		}
		for {
			if o := h.b.MemBackend.LockOwner(name); o != "" && o != h.MemStorage.Inst {
				cancel2()
				return
			}
			select {
			case <-done:
				return
			case <-time.After(time.Millisecond):
			}
		}
	}()
	return h.MemStorage.Lock(ctx2, name)
}

func (b c01MemBackend) LockID(name string) string { return name }
func (b c01MemBackend) GetLog() *doubles.Log      { return b.MemBackend.Log }
func (b c01MemBackend) Close()                    {}

// ---- FileStorage

type c01FileBackend struct {
	fs    *certmagic.FileStorage
	dir   string
	log   *doubles.Log
	mu    sync.Mutex
	owner map[string]string // lock file -> instance
	// the gate does not fail a Lock call for a cancelled context (FileStorage.Lock itself looks at the
	// context only while it waits for a held lock)
	lockIgnoresCtx bool
	// the lock file a dead holder left behind (leaveLockFile): not a lock anybody holds as long as it is untouched
	deadName    string
	deadContent []byte
}

func c01NewFileBackend() (*c01FileBackend, error) {
	dir, err := os.MkdirTemp("", "verif-c01-fs-")
	if err != nil {
		return nil, err
	}
	return &c01FileBackend{fs: &certmagic.FileStorage{Path: dir}, dir: dir, owner: map[string]string{}, log: &doubles.Log{}}, nil
}

func (b *c01FileBackend) Close() { os.RemoveAll(b.dir) }

// leaveLockFile puts the lock file of a dead holder in place (what a crashed instance leaves behind).
func (b *c01FileBackend) leaveLockFile(name, kind string) error {
	p := certmagic.VerifLocksFileLockPath(b.fs, name)
	if err := os.MkdirAll(filepath.Dir(p), 0o700); err != nil {
		return err
	}
	var content []byte
	switch kind {
	case "empty", "empty-fresh":
	case "stale":
		ts := time.Now().Add(-time.Hour)
		content, _ = json.Marshal(map[string]any{"created": ts, "updated": ts})
	case "fresh":
		ts := time.Now()
		content, _ = json.Marshal(map[string]any{"created": ts, "updated": ts})
	default:
		return fmt.Errorf("unknown crash_lock kind %q", kind)
	}
	b.deadName, b.deadContent = filepath.Base(p), content
	if err := os.WriteFile(p, content, 0o644); err != nil {
		return err
	}
	if kind == "empty" || kind == "stale" {
		// the holder died long ago (an empty lock file is given up only once its modification time is older
		// than the staleness bound; "empty-fresh": it has just died)
		old := time.Now().Add(-time.Hour)
		return os.Chtimes(p, old, old)
	}
	return nil
}
func (b *c01FileBackend) GetLog() *doubles.Log { return b.log }
func (b *c01FileBackend) LockID(name string) string {
	return filepath.Base(certmagic.VerifLocksFileLockPath(b.fs, name))
}
func (b *c01FileBackend) Handle(inst string) certmagic.Storage {
	return &c01FileHandle{b: b, inst: inst}
}
func (b *c01FileBackend) Put(key string, v []byte) { b.fs.Store(context.Background(), key, v) }
func (b *c01FileBackend) Get(key string) ([]byte, bool) {
	v, err := b.fs.Load(context.Background(), key)
	return v, err == nil
}
func (b *c01FileBackend) Keys() []string {
	var out []string
	filepath.WalkDir(b.dir, func(p string, d fs.DirEntry, err error) error {
		if err != nil || d.IsDir() {
			return nil
		}
		rel, _ := filepath.Rel(b.dir, p)
		rel = filepath.ToSlash(rel)
		if !strings.HasPrefix(rel, "locks/") {
			out = append(out, rel)
		}
		return nil
	})
	sort.Strings(out)
	return out
}
func (b *c01FileBackend) HeldLocks() []string {
	ents, _ := os.ReadDir(filepath.Join(b.dir, "locks"))
	var out []string
	for _, e := range ents {
		if strings.HasSuffix(e.Name(), ".lock") {
			if e.Name() == b.deadName {
				if c, err := os.ReadFile(filepath.Join(b.dir, "locks", e.Name())); err == nil && string(c) == string(b.deadContent) {
					continue // nobody asked for this lock: the dead holder's file is still lying there
				}
			}
			out = append(out, e.Name())
		}
	}
	return out
}
func (b *c01FileBackend) LockOwner(name string) string {
	b.mu.Lock()
	defer b.mu.Unlock()
	return b.owner[b.LockID(name)]
}

type c01FileHandle struct {
	b    *c01FileBackend
	inst string
}

func (h *c01FileHandle) String() string { return "GatedFileStorage:" + h.inst }

func (h *c01FileHandle) begin(ctx context.Context, kind, key string) (int, error) {
	ce := ""
	if err := ctx.Err(); err != nil {
		ce = err.Error()
	}
	seq, err := h.b.log.Begin(doubles.Op{Inst: h.inst, Kind: kind, Key: key, CtxErr: ce})
	if err == nil && kind != "Unlock" && !(kind == "Lock" && h.b.lockIgnoresCtx) {
		if cerr := ctx.Err(); cerr != nil {
			h.b.log.SetErr(seq, cerr)
			return seq, cerr
		}
	}
	return seq, err
}

func (h *c01FileHandle) done(seq int, err error) error {
	if err != nil {
		if errors.Is(err, fs.ErrNotExist) {
			h.b.log.SetErr(seq, fs.ErrNotExist)
		} else {
			h.b.log.SetErr(seq, err)
		}
	}
	return err
}

func (h *c01FileHandle) Store(ctx context.Context, key string, value []byte) error {
	seq, err := h.begin(ctx, "Store", key)
	if err != nil {
		return err
	}
	return h.done(seq, h.b.fs.Store(ctx, key, value))
}
func (h *c01FileHandle) Load(ctx context.Context, key string) ([]byte, error) {
	seq, err := h.begin(ctx, "Load", key)
	if err != nil {
		return nil, err
	}
	v, err := h.b.fs.Load(ctx, key)
	return v, h.done(seq, err)
}
func (h *c01FileHandle) Delete(ctx context.Context, key string) error {
	seq, err := h.begin(ctx, "Delete", key)
	if err != nil {
		return err
	}
	return h.done(seq, h.b.fs.Delete(ctx, key))
}
func (h *c01FileHandle) Exists(ctx context.Context, key string) bool {
	if _, err := h.begin(ctx, "Exists", key); err != nil {
		return false
	}
	return h.b.fs.Exists(ctx, key)
}
func (h *c01FileHandle) List(ctx context.Context, prefix string, recursive bool) ([]string, error) {
	seq, err := h.begin(ctx, "List", prefix)
	if err != nil {
		return nil, err
	}
	v, err := h.b.fs.List(ctx, prefix, recursive)
	return v, h.done(seq, err)
}
func (h *c01FileHandle) Stat(ctx context.Context, key string) (certmagic.KeyInfo, error) {
	seq, err := h.begin(ctx, "Stat", key)
	if err != nil {
		return certmagic.KeyInfo{}, err
	}
	v, err := h.b.fs.Stat(ctx, key)
	return v, h.done(seq, err)
}
func (h *c01FileHandle) Lock(ctx context.Context, name string) error {
	seq, err := h.begin(ctx, "Lock", name)
	if err != nil {
		return err
	}
	if err := h.b.fs.Lock(ctx, name); err != nil {
		h.b.log.SetErr(seq, err)
		return err
	}
	id := h.b.LockID(name)
	h.b.mu.Lock()
	h.b.owner[id] = h.inst
	h.b.mu.Unlock()
	if _, err := h.b.log.Begin(doubles.Op{Inst: h.inst, Kind: "LockAcquired", Key: name}); err != nil {
		h.b.fs.Unlock(context.Background(), name)
		h.b.mu.Lock()
		delete(h.b.owner, id)
		h.b.mu.Unlock()
		h.b.log.SetErr(seq, err)
		return err
	}
	return nil
}
func (h *c01FileHandle) Unlock(ctx context.Context, name string) error {
	seq, err := h.begin(ctx, "Unlock", name)
	if err != nil {
		return err
	}
	err = h.b.fs.Unlock(ctx, name)
	if err == nil {
		h.b.mu.Lock()
		delete(h.b.owner, h.b.LockID(name))
		h.b.mu.Unlock()
	}
	return h.done(seq, err)
}

var _ certmagic.Storage = (*c01FileHandle)(nil)
