//go:build !skip_c17_stress

package main

import (
	"context"
	"fmt"
	"os"
	"os/exec"
	"path/filepath"
	"strings"
	"sync"
	"sync/atomic"
	"time"

	"github.com/caddyserver/certmagic"

	"verifharness/pkg/emit"
)

// Class "reconfigure-under-load": the loop goroutine of a real limiter against the setters.
// Waiters take tickets as fast as they can (window 0), another goroutine alternates
// SetMaxEvents(0) / SetMaxEvents(1 + k%3); afterwards SetMaxEvents(0), a probe Wait, then
// SetMaxEvents(N), SetWindow(W) and a burst of callers with a deadline. Every call on the limiter
// is made from a goroutine the harness can abandon: a limiter whose loop died holding the mutex
// blocks its callers for ever.
type c17StressPlan struct {
	N0         int `json:"n0"`
	Flips      int `json:"flips"`
	Size       int `json:"size"` // the limits set alternately with 0 are Size + k%3
	Waiters    int `json:"waiters"`
	N          int `json:"final_limit"`
	WindowS    int `json:"final_window_s"`
	Callers    int `json:"callers"`
	DeadlineMs int `json:"deadline_ms"`
}

type c17StressObs struct {
	CfgReturned   bool  `json:"setter_calls_returned"`
	Probe         bool  `json:"probe_admitted"`
	FinalReturned bool  `json:"final_setter_calls_returned"`
	Admitted      int   `json:"admitted"`
	Stamps        int   `json:"stamps"`
	TicketsTaken  int64 `json:"tickets_taken_during_stress"`
}

func c17Within(d time.Duration, f func()) bool {
	done := make(chan struct{})
	go func() { defer close(done); f() }()
	select {
	case <-done:
		return true
	case <-time.After(d):
		return false
	}
}

func c17StressRound(p c17StressPlan) c17StressObs {
	var o c17StressObs
	r := certmagic.NewRateLimiter(p.N0, 0)
	defer r.Stop()
	var stop atomic.Bool
	var taken atomic.Int64
	var wg sync.WaitGroup
	for i := 0; i < p.Waiters; i++ {
		wg.Add(1)
		go func() {
			defer wg.Done()
			for !stop.Load() {
				ctx, cancel := context.WithTimeout(context.Background(), 100*time.Millisecond)
				if r.Wait(ctx) == nil {
					taken.Add(1)
				}
				cancel()
			}
		}()
	}
	// the waiters are under way before the limit starts to change
	for dl := time.Now().Add(time.Second); taken.Load() < 20 && time.Now().Before(dl); {
		time.Sleep(50 * time.Microsecond)
	}
	o.CfgReturned = c17Within(5*time.Second, func() {
		for k := 0; k < p.Flips; k++ {
			r.SetMaxEvents(0)
			r.SetMaxEvents(p.Size + k%3)
		}
		r.SetMaxEvents(0)
	})
	stop.Store(true)
	wg.Wait()
	o.TicketsTaken = taken.Load()
	// limit 0, window 0: unlimited. A waiter must be admitted at once.
	var probed atomic.Bool
	c17Within(3*time.Second, func() {
		ctx, cancel := context.WithTimeout(context.Background(), time.Second)
		defer cancel()
		probed.Store(r.Wait(ctx) == nil)
	})
	o.Probe = probed.Load()
	if !o.CfgReturned {
		return o
	}
	// the loop stores the probe's stamp (if the ring is not empty by then) after the hand-over:
	// let it finish before the limit is raised, so that the probe does not count against it
	time.Sleep(20 * time.Millisecond)
	o.FinalReturned = c17Within(3*time.Second, func() {
		r.SetMaxEvents(p.N)
		r.SetWindow(time.Duration(p.WindowS) * time.Second)
	})
	if !o.FinalReturned {
		return o
	}
	var admitted atomic.Int32
	var bw sync.WaitGroup
	for i := 0; i < p.Callers; i++ {
		bw.Add(1)
		go func() {
			defer bw.Done()
			ctx, cancel := context.WithTimeout(context.Background(), time.Duration(p.DeadlineMs)*time.Millisecond)
			defer cancel()
			if r.Wait(ctx) == nil {
				admitted.Add(1)
			}
		}()
	}
	bw.Wait()
	time.Sleep(2 * time.Millisecond)
	o.Admitted = int(admitted.Load())
	var stamps atomic.Int32
	c17Within(time.Second, func() {
		rg, _, _ := certmagic.VerifRateLimiterSnapshot(r)
		for _, t := range rg {
			if !t.IsZero() {
				stamps.Add(1)
			}
		}
	})
	o.Stamps = int(stamps.Load())
	return o
}

func c17StressEmit(w *emit.Writer, p c17StressPlan, o c17StressObs, idx int) {
	e := &emit.Enc{}
	e.Int(2).Int(p.N0).Int(p.Flips).Int(p.Size).Int(p.N).Z(int64(time.Duration(p.WindowS) * time.Second)).Int(p.Callers).
		Z(int64(time.Duration(p.DeadlineMs) * time.Millisecond)).Bool(o.CfgReturned).Bool(o.Probe).Bool(o.FinalReturned).
		Int(o.Admitted).Int(o.Stamps)
	w.Hist("class=reconfigure-under-load")
	w.Hist(fmt.Sprintf("stress: waiters=%d flips=%d size=%d", p.Waiters, p.Flips, p.Size))
	bucket := "0"
	switch {
	case o.TicketsTaken >= 1000:
		bucket = "1000.."
	case o.TicketsTaken >= 100:
		bucket = "100..999"
	case o.TicketsTaken > 0:
		bucket = "1..99"
	}
	w.Hist("stress: tickets_taken=" + bucket)
	w.Add(emit.Case{Desc: map[string]any{"class": "reconfigure-under-load", "flips": p.Flips, "size": p.Size, "waiters": p.Waiters, "final_limit": p.N},
		In: p, Obs: o, Wire: e.String(), Nontrivial: p.Flips > 0 && o.TicketsTaken > 0, Key: fmt.Sprintf("stress:%d:%d:%d:%d:%d:%d", p.N0, p.Flips, p.Size, p.Waiters, p.N, idx)})
}

func c17StressPlans(tier string) []c17StressPlan {
	// on the code before the fix a SetMaxEvents(0) hits the loop between its unlocked look at the
	// ring and its critical section the more easily the longer SetMaxEvents holds the mutex, i.e.
	// the larger the ring it shrinks: with 100 slots and more every round of 2000 flips killed
	// the loop (20 of 20), with 1-3 slots about one round in three
	n := 8
	if tier == "thorough" {
		n = 150
	}
	var ps []c17StressPlan
	for i := 0; i < n; i++ {
		ps = append(ps, c17StressPlan{N0: []int{2, 1, 3, 0}[i%4], Flips: []int{2000, 1000, 3000}[i%3], Size: []int{100, 1000, 300, 1}[i%4],
			Waiters: []int{4, 2, 8}[i%3], N: 1 + i%3, WindowS: 3600, Callers: 3 + i%4, DeadlineMs: 60})
	}
	return ps
}

func c17Stress(w *emit.Writer, plans []c17StressPlan) {
	for i, p := range plans {
		var o c17StressObs
		for try := 0; try < 3; try++ {
			o = c17StressRound(p)
			// too few admissions in the final burst = the process was not scheduled within the
			// deadline: repeat (a limiter that really admits too few does so every time)
			if !(o.CfgReturned && o.Probe && o.FinalReturned && o.Admitted < min(p.Callers, p.N)) {
				break
			}
			w.Hist("stress: round_repeated_too_few_admitted")
		}
		c17StressEmit(w, p, o, i)
	}
}

// ---- the same stress under the race detector (thorough tier): an in-package test in a scratch
// copy of the repository, run with `go test -race` as a separate process.

const c17RaceTest = `package certmagic

import (
	"context"
	"fmt"
	"sync"
	"sync/atomic"
	"testing"
	"time"
)

func TestVerifC17Race(t *testing.T) {
	died := 0
	rounds := 0
	deadline := time.Now().Add(12 * time.Second)
	for time.Now().Before(deadline) && died == 0 {
		rounds++
		r := NewRateLimiter(2, 0)
		var stop atomic.Bool
		var wg sync.WaitGroup
		for i := 0; i < 4; i++ {
			wg.Add(1)
			go func() {
				defer wg.Done()
				for !stop.Load() {
					ctx, c := context.WithTimeout(context.Background(), 100*time.Millisecond)
					r.Wait(ctx)
					c()
				}
			}()
		}
		done := make(chan struct{})
		go func() {
			defer close(done)
			for k := 0; k < 500; k++ {
				r.SetMaxEvents(0)
				r.SetMaxEvents(1 + k%3)
				if k%50 == 0 {
					r.SetWindow(time.Millisecond)
					r.SetWindow(0)
				}
			}
			r.SetMaxEvents(0)
		}()
		select {
		case <-done:
		case <-time.After(5 * time.Second):
			died++
		}
		stop.Store(true)
		wg.Wait()
		ctx, c := context.WithTimeout(context.Background(), time.Second)
		if died == 0 && r.Wait(ctx) != nil {
			died++
		}
		c()
		r.Stop()
	}
	fmt.Printf("VERIF-C17-RACE rounds=%d died=%d\n", rounds, died)
}
`

type c17RaceObs struct {
	Ran    bool   `json:"ran"`
	Races  int    `json:"data_races_reported"`
	Died   int    `json:"rounds_in_which_the_loop_died"`
	Rounds int    `json:"rounds"`
	Note   string `json:"note,omitempty"`
}

func c17RaceDetector() c17RaceObs {
	var o c17RaceObs
	goBin, err := exec.LookPath("go")
	if err != nil {
		o.Note = "go tool not found"
		return o
	}
	tmp, cleanup, err := c1719ScratchRepo("c17race")
	if err != nil {
		o.Note = err.Error()
		return o
	}
	defer cleanup()
	if err := os.WriteFile(filepath.Join(tmp, "zz_verif_c17_race_test.go"), []byte(c17RaceTest), 0o644); err != nil {
		o.Note = err.Error()
		return o
	}
	ctx, cancel := context.WithTimeout(context.Background(), 240*time.Second)
	defer cancel()
	cmd := exec.CommandContext(ctx, goBin, "test", "-race", "-v", "-vet=off", "-count=1", "-run", "TestVerifC17Race", ".")
	cmd.Dir = tmp
	// the race detector needs cgo (the check's environment turns it off for its own builds)
	cmd.Env = c1719GoEnv(true)
	out, _ := cmd.CombinedOutput()
	s := string(out)
	i := strings.Index(s, "VERIF-C17-RACE ")
	if i < 0 {
		if strings.Contains(s, "WARNING: DATA RACE") {
			// the test did not get to its summary line (e.g. it was killed) but races were reported
			o.Ran = true
			o.Races = strings.Count(s, "WARNING: DATA RACE")
			o.Died = 1
			return o
		}
		if len(s) > 300 {
			s = s[len(s)-300:]
		}
		o.Note = "race-detector run produced no summary: " + s
		return o
	}
	o.Ran = true
	fmt.Sscanf(s[i:], "VERIF-C17-RACE rounds=%d died=%d", &o.Rounds, &o.Died)
	// only races on the limiter count (the report names the functions)
	for _, rep := range strings.Split(s, "WARNING: DATA RACE")[1:] {
		if strings.Contains(rep, "RingBufferRateLimiter") {
			o.Races++
		}
	}
	return o
}

func c17RaceEmit(w *emit.Writer, o c17RaceObs) {
	if !o.Ran {
		w.Hist("race_detector_unavailable")
		w.Meta.Notes = append(w.Meta.Notes, "race-detector stress not run: "+o.Note)
		return
	}
	e := &emit.Enc{}
	e.Int(3).Int(o.Races).Int(o.Died)
	w.Hist("class=race-detector-stress")
	w.Add(emit.Case{Desc: map[string]any{"class": "race-detector-stress"}, In: map[string]string{"test": "go test -race, SetMaxEvents/SetWindow against the loop under load"},
		Obs: o, Wire: e.String(), Nontrivial: o.Rounds > 0, Key: "race-detector"})
}
